"""C02, transcendental part: the derivative expression trees of spec/tables/Kernels.tla are evaluated in extended
precision on a grid of each kernel's domain and compared with the gradient MyGrad back-propagates (1e-9 relative);
convention rows are compared exactly."""
from __future__ import annotations

import warnings

import numpy as np

import mygrad as mg

LD = np.longdouble


def ev(e, x, y, f):
    op = e[0]
    if op == "x":
        return x
    if op == "y":
        return y
    if op == "f":
        return f
    if op == "pi":
        return LD(np.pi)
    if op == "c":
        return LD(e[1]) / LD(e[2])
    a = ev(e[1], x, y, f)
    b = ev(e[2], x, y, f) if len(e) > 2 else None
    return {
        "add": lambda: a + b, "sub": lambda: a - b, "mul": lambda: a * b, "div": lambda: a / b, "neg": lambda: -a,
        "abs": lambda: np.abs(a), "sq": lambda: a * a, "sqrt": lambda: np.sqrt(a), "exp": lambda: np.exp(a),
        "log": lambda: np.log(a), "sin": lambda: np.sin(a), "cos": lambda: np.cos(a), "tan": lambda: np.tan(a),
        "sinh": lambda: np.sinh(a), "cosh": lambda: np.cosh(a), "tanh": lambda: np.tanh(a), "pow": lambda: np.power(a, b),
        "gt": lambda: (a > b).astype(LD),
    }[op]()


def grid(dom):
    pts = []
    for lo, hi in dom:
        lo, hi = lo / 10.0, hi / 10.0
        pts += list(np.linspace(lo, hi, 23))
        pts += [lo + (hi - lo) * 1e-3, hi - (hi - lo) * 1e-3]
    return np.array(sorted(set(float(p) for p in pts)))


def relerr(got, want):
    got, want = np.asarray(got, dtype=LD), np.asarray(want, dtype=LD)
    return np.max(np.abs(got - want) / np.maximum(LD(1.0), np.abs(want))) if got.size else 0.0


def run_focal(row, tol=1e-9):
    """focal_loss on probabilities and softmax_focal_loss on scores; C = 3 classes, every class the target in turn."""
    from mygrad.nnet.losses import focal_loss, softmax_focal_loss

    alpha = float(ev(row["alpha"], None, None, None))
    gamma = float(ev(row["gamma"], None, None, None))
    ps = grid(row["dom"])
    n = ps.size
    tgt = np.arange(n) % 3
    rng = np.random.RandomState(7)
    probs = rng.uniform(0.05, 0.95, size=(n, 3))
    probs[np.arange(n), tgt] = ps
    g = np.arange(n) % 5 - 2.0
    x = mg.tensor(probs.copy())
    out = focal_loss(x, tgt, alpha=alpha, gamma=gamma)
    P = ps.astype(LD)
    err = relerr(out.data, ev(row["val"], P, None, None))
    if out.shape != (n,) or not np.isfinite(float(err)) or err > tol:
        return ("focal_loss value", "per-datum -a (1-p)^g ln p", f"rel err {float(err):.2e}, shape {out.shape}")
    out.backward(g)
    want = np.zeros((n, 3), dtype=LD)
    want[np.arange(n), tgt] = ev(row["d"], P, None, None) * g
    err = relerr(x.grad, want)
    if x.grad.shape != (n, 3) or not np.isfinite(float(err)) or err > tol:
        i = int(np.argmax(np.abs(np.asarray(x.grad, dtype=LD) - want).max(axis=1)))
        return ("focal_loss vjp", f"p={ps[i]!r}: {np.asarray(want[i], dtype=float).tolist()}", f"{x.grad[i].tolist()} (rel err {float(err):.2e})")
    # p = 1: the documented limit
    x1 = mg.tensor(np.array([[1.0, 0.25], [0.5, 1.0]]))
    focal_loss(x1, np.array([0, 1]), alpha=alpha, gamma=gamma).backward()
    lim = float(ev(row["at_one"], None, None, None))
    if not np.array_equal(x1.grad, np.array([[lim, 0.0], [0.0, lim]])):
        return ("focal_loss vjp at p = 1", lim, x1.grad.tolist())
    # through softmax: scores with prescribed class probabilities (s = ln p up to a per-row constant)
    rest = rng.uniform(0.1, 0.9, size=n)
    pr = np.empty((n, 3))
    pr[np.arange(n), tgt] = ps
    pr[np.arange(n), (tgt + 1) % 3] = (1 - ps) * rest
    pr[np.arange(n), (tgt + 2) % 3] = (1 - ps) * (1 - rest)
    s = mg.tensor(np.log(pr) + rng.uniform(-1, 1, size=(n, 1)))
    out = softmax_focal_loss(s, tgt, alpha=alpha, gamma=gamma)
    sm = np.exp(s.data.astype(LD))
    sm = sm / sm.sum(axis=1, keepdims=True)
    P = sm[np.arange(n), tgt]
    err = relerr(out.data, ev(row["val"], P, None, None))
    if out.shape != (n,) or not np.isfinite(float(err)) or err > tol:
        return ("softmax_focal_loss value", "per-datum -a (1-p)^g ln p", f"rel err {float(err):.2e}, shape {out.shape}")
    out.backward(g)
    want = np.empty((n, 3), dtype=LD)
    for k in range(3):
        col = (tgt + k) % 3
        want[np.arange(n), col] = (ev(row["dtarget"], P, None, None) if k == 0 else ev(row["dother"], P, sm[np.arange(n), col], None)) * g
    err = relerr(s.grad, want)
    if s.grad.shape != (n, 3) or not np.isfinite(float(err)) or err > 1e-8:
        i = int(np.argmax(np.abs(np.asarray(s.grad, dtype=LD) - want).max(axis=1)))
        return ("softmax_focal_loss vjp", f"p={float(P[i])!r}: {np.asarray(want[i], dtype=float).tolist()}", f"{s.grad[i].tolist()} (rel err {float(err):.2e})")
    return None


def run_row(row, tol=1e-9):
    kind, name = row["kind"], row["f"]
    if kind == "focal":
        with warnings.catch_warnings():
            warnings.simplefilter("ignore")
            return run_focal(row, tol)
    fn = getattr(mg, name, None) or getattr(mg.nnet.activations, name, None)
    if fn is None:
        return ("missing", f"mygrad.{name}", "not found")
    with warnings.catch_warnings():
        warnings.simplefilter("ignore")
        if kind == "unary":
            xs = grid(row["dom"])
            for seedmode in ("ones", "pattern"):
                x = mg.tensor(xs.copy())
                y = fn(x)
                g = np.ones_like(xs) if seedmode == "ones" else (np.arange(xs.size) % 5 - 2.0)
                y.backward(g)
                want = ev(row["d"], xs.astype(LD), None, y.data.astype(LD)) * g.astype(LD)
                err = relerr(x.grad, want)
                if not np.isfinite(float(err)) or err > tol:
                    i = int(np.argmax(np.abs(np.asarray(x.grad, dtype=LD) - want) / np.maximum(LD(1.0), np.abs(want))))
                    return ("vjp", f"x={xs[i]!r}: {float(want[i])!r}", f"{float(x.grad[i])!r} (rel err {float(err):.2e})")
            # broadcasting / 0-d / non-contiguous structure: gradient has the operand's shape
            x0 = mg.tensor(float(xs[len(xs) // 2]))
            fn(x0).backward()
            if not (isinstance(x0.grad, np.ndarray) and x0.grad.shape == ()):
                return ("0-d grad", "ndarray shape ()", repr(x0.grad))
            return None
        if kind == "binary":
            base = np.array([0.5, 1.5, 2.0, 3.0, 0.7, 2.5]) if row.get("pos") else np.array([-2.0, -0.5, 0.5, 1.5, 3.0, -1.25])
            ys = np.array([1.5, -0.5, 2.0, 0.5, -1.5, 3.0]) if name not in ("maximum", "minimum") else np.array([1.0, -1.0, 2.5, 0.25, 4.0, -3.0])
            for shape_case in ("same", "bcast"):
                xa = base if shape_case == "same" else base.reshape(6, 1)
                ya = ys if shape_case == "same" else ys.reshape(1, 6)[:, :3]
                x, y = mg.tensor(xa.copy()), mg.tensor(ya.copy())
                r = fn(x, y)
                g = (np.arange(r.size).reshape(r.shape) % 3 + 1.0)
                r.backward(g)
                X, Y = np.broadcast_arrays(xa.astype(LD), ya.astype(LD))
                fx = ev(row["d"][0], X, Y, r.data.astype(LD)) * g
                fy = ev(row["d"][1], X, Y, r.data.astype(LD)) * g
                wantx = fx if fx.shape == xa.shape else fx.sum(axis=tuple(i for i in range(fx.ndim) if xa.shape[i] == 1 and fx.shape[i] != 1), keepdims=True)
                wanty = fy if fy.shape == ya.shape else fy.sum(axis=tuple(i for i in range(fy.ndim) if ya.shape[i] == 1 and fy.shape[i] != 1), keepdims=True)
                for nm, got, want in (("d/dx", x.grad, wantx), ("d/dy", y.grad, wanty)):
                    err = relerr(got, want)
                    if got.shape != np.shape(want) or not np.isfinite(float(err)) or err > tol:
                        return (f"vjp {nm} ({shape_case})", np.asarray(want, dtype=float).ravel()[:6].tolist(), np.asarray(got).ravel()[:6].tolist())
            return None
        if kind == "convention":
            xv = row["x"][1] / row["x"][2]
            kw = {"nan_to_num": False} if row["kw"] == "nan_to_num_false" else {}
            if name in ("maximum", "minimum"):
                x, y = mg.tensor([xv, 1.0]), mg.tensor([xv, 5.0])
                fn(x, y).backward()
                got = (float(x.grad[0]), float(y.grad[0]))
                if got != (0.0, 0.0):
                    return ("tie convention", (0.0, 0.0), got)
                return None
            x = mg.tensor([xv, 0.25])
            fn(x, **kw).backward()
            got = float(x.grad[0])
            if row["dx"] == "zero" and got != 0.0:
                return ("convention", 0.0, got)
            if row["dx"] == "nan" and got == got:
                return ("convention", "nan", got)
            return None
    raise ValueError(kind)

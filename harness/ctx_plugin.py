"""pytest plugin (loaded with -p harness.ctx_plugin while MYGRAD_VERIF=1): records, per test of the repository's own suite,
the scope events emitted by the guarded hook in mygrad._utils (ContextTracker.__enter__/__exit__, turn_memory_guarding_*)
and writes them to $VERIF_CTX_OUT for validation against spec/trace/TraceContext.tla."""
import json
import os

import pytest

import mygrad._utils as _U
import mygrad._utils.graph_tracking as _track
import mygrad._utils.lock_management as _mem

_NAMES = {"_NoAutoDiff": "no_autodiff", "_NoMemGuard": "mem_guard_off", "_WithMemGuard": "mem_guard_on"}
_MAX_EVENTS = 4000
_records = []


@pytest.fixture(autouse=True)
def _verif_ctx_trace(request):
    ev = _U._VERIF_EVENTS
    if ev is None:  # hooks are off
        yield
        return
    del ev[:]
    start = (bool(_track.TRACK_GRAPH), bool(_mem.MEM_GUARD))
    yield
    chunk = list(ev[:_MAX_EVENTS])
    del ev[:]
    _records.append({"test": request.node.nodeid, "start": start, "truncated": len(chunk) == _MAX_EVENTS, "events": chunk})


def pytest_sessionfinish(session, exitstatus):
    out = os.environ.get("VERIF_CTX_OUT")
    if not out:
        return
    recs = []
    for r in _records:
        evs = []
        for kind, cls, depth, track, guard in r["events"]:
            if kind in ("enter", "exit"):
                evs.append({"k": kind, "m": _NAMES.get(cls, cls), "on": False, "depth": depth, "track": track, "guard": guard})
            else:
                evs.append({"k": "turn", "m": "", "on": kind == "turn_on", "depth": -1, "track": track, "guard": guard})
        recs.append({"test": r["test"], "start": list(r["start"]), "truncated": r["truncated"], "events": evs})
    with open(out, "w") as f:
        json.dump(recs, f)

"""C15, code -> spec on the repository's own tests: runs test modules of rsokl/MyGrad with the guarded hook on, and has TLC
validate every test's scope-event trace against Context.tla (spec/trace/TraceContext.tla)."""
from __future__ import annotations

import json
import os
import re
import subprocess
import sys
import tempfile

from . import tlc

QUICK_MODULES = ["tests/test_no_autodiff.py", "tests/tensor_base/test_memory_locking.py", "tests/test_in_place_semantics.py",
                 "tests/tensor_base/test_view_graph.py", "tests/tensor_ops/test_setitem.py", "tests/tensor_base/test_augmented_updates.py"]
THOROUGH_MODULES = ["tests/test_no_autodiff.py", "tests/tensor_base", "tests/test_in_place_semantics.py", "tests/tensor_ops",
                    "tests/state_testing", "tests/test_tensor_manip.py", "tests/test_numpy_overrides.py", "tests/nnet/layers",
                    "tests/test_tensor_creation.py", "tests/wrappers", "tests/math/sequence"]

# tests that assign mygrad._utils.lock_management.MEM_GUARD directly (an unhooked write to the switch): their traces
# cannot be explained by the public actions and are not validated
EXCLUDED_TESTS = ("tests/tensor_base/test_memory_locking.py::test_memguard_context",
                  "tests/tensor_base/test_memory_locking.py::test_memguard_decorator")

_VERDICT = re.compile(r'<<"VERDICT",\s*(\d+),\s*"([^"]*)",\s*(\d+)>>')
_EXPECT = re.compile(r'<<"EXPECTED-STATE",\s*(\d+),\s*(\d+),\s*(.*?)>>\s*$', re.M)


def record(modules, scratch, timeout=3000):
    """Runs pytest on the repository's tests with hooks on.  Returns (records, pytest tail)."""
    src = os.environ.get("VERIF_REPO_SRC", "/repo/src")
    root = os.path.dirname(src)
    out = os.path.join(scratch, "ctx_events.json")
    env = dict(os.environ)
    env.update({"MYGRAD_VERIF": "1", "VERIF_CTX_OUT": out, "PYTHONPATH": f"{src}:{tlc.VERIF}", "PYTHONHASHSEED": "0",
                "HYPOTHESIS_STORAGE_DIRECTORY": os.path.join(scratch, "hypothesis")})
    mods = [m for m in modules if os.path.exists(os.path.join(root, m))]
    cmd = [sys.executable, "-m", "pytest", "-q", "-x", "-p", "no:cacheprovider", "-p", "harness.ctx_plugin",
           "-W", "ignore", "--timeout=900", *mods]
    r = subprocess.run(cmd, cwd=root, env=env, capture_output=True, text=True, timeout=timeout)
    tail = (r.stdout + r.stderr)[-600:]
    if not os.path.exists(out):
        raise tlc.MachineryError(f"no scope events recorded (pytest rc={r.returncode}): {tail}")
    return json.load(open(out)), tail, r.returncode


def validate(records, scratch):
    """Returns (results, stats): results = list of (record, verdict, line, expected) for the distinct traces."""
    usable = []
    skipped = {"empty": 0, "dirty_start": 0, "excluded": 0}
    for r in records:
        if r["test"].split("[")[0] in EXCLUDED_TESTS:
            skipped["excluded"] += 1
            continue
        if not r["events"]:
            skipped["empty"] += 1
            continue
        track0, guard0 = r["start"]
        ev = r["events"]
        if not track0:
            skipped["dirty_start"] += 1     # a previous test left tracking off: not a state a trace can start in
            continue
        if not guard0:                      # the process-wide default was switched off earlier (turn_memory_guarding_off)
            ev = [{"k": "turn", "m": "", "on": False, "depth": -1, "track": True, "guard": False}] + ev
        usable.append((r, ev))
    distinct = {}
    for r, ev in usable:
        key = json.dumps(ev)
        distinct.setdefault(key, []).append(r["test"])
    keys = list(distinct)
    results = []
    gen = dist = 0
    for i in range(0, len(keys), 400):
        chunk = keys[i:i + 400]
        path = os.path.join(scratch, f"ctxbatch-{i}.json")
        with open(path, "w") as f:
            json.dump({"traces": [json.loads(k) for k in chunk]}, f)
        rc, out, wall = tlc.run_tlc(os.path.join(tlc.SPEC, "trace", "TraceContext.tla"),
                                    os.path.join(tlc.SPEC, "trace", "TraceContext.cfg"), workers=1,
                                    env={"TRACE_FILE": path}, timeout=1800)
        if rc != 0:
            j = out.find("Error:")
            raise tlc.MachineryError(f"TraceContext.tla failed rc={rc}: {out[j:j + 1500] if j >= 0 else out[-1500:]}")
        st = tlc.parse_stats(out)
        if st:
            gen += st["generated"]
            dist += st["distinct"]
        verdicts = {int(m.group(1)): (m.group(2), int(m.group(3))) for m in _VERDICT.finditer(out)}
        expect = {int(m.group(1)): m.group(3) for m in _EXPECT.finditer(out)}
        if len(verdicts) != len(chunk):
            raise tlc.MachineryError(f"TraceContext: {len(verdicts)} verdicts for {len(chunk)} traces: {out[-800:]}")
        for k, key in enumerate(chunk, 1):
            v, line = verdicts[k]
            results.append({"tests": distinct[key], "events": json.loads(key), "verdict": v, "line": line,
                            "expected_state": expect.get(k)})
    stats = {"tests_recorded": len(records), "tests_with_events": len(usable), "distinct_traces": len(keys),
             "events": sum(len(ev) for _, ev in usable), "skipped": skipped, "tlc_states": dist, "tlc_transitions": gen,
             "truncated_tests": sum(1 for r in records if r.get("truncated"))}
    return results, stats


def revalidate(events):
    """Validates one stored scope-event trace again (used by ./check C15 --replay)."""
    import shutil

    scratch = tempfile.mkdtemp(prefix="verif-ctx-")
    try:
        res, _ = validate([{"test": "replay", "start": [True, True], "truncated": False, "events": events}], scratch)
        r = res[0]
        return None if r["verdict"] == "ok" else ("rejected at event", r["line"], r["expected_state"])
    finally:
        shutil.rmtree(scratch, ignore_errors=True)

"""Statement language shared by the TLA+ specifications and the implementation driver.

A *program* is a list of JSON-serialisable statement dicts (DESIGN 3.1).  This module knows how to
execute one statement against real MyGrad tensors and against plain NumPy arrays (the "twin").
It contains NO semantics of its own: expected values, gradients, sharing relations etc. are computed
by TLC from the TLA+ text (spec/Ref.tla); this file only spells each statement with the public API.
"""
from __future__ import annotations

from fractions import Fraction

import numpy as np

import mygrad as mg

# ----------------------------------------------------------------------------- value encoding
LIM = 10**8


class OutOfModel(Exception):
    """A value left the exactly-representable fragment (DESIGN 3.3)."""


def enc_num(x) -> list:
    x = float(x)
    if x != x or x in (float("inf"), float("-inf")):
        raise OutOfModel(f"non-finite {x}")
    f = Fraction(x)
    if abs(f.numerator) >= LIM or f.denominator > 256:
        # Not a small dyadic rational.  Division by a non power of two (mean over 3, 1/3 ...) gives a float64 that is
        # the (almost) correctly rounded image of a small rational: snap to it.  Low-precision (float32/16) results of
        # such divisions are NOT within a few float64 ulps of any small rational and leave the exact fragment.
        if f.denominator <= 2**24 and f.denominator & (f.denominator - 1) == 0 and abs(f.numerator) < LIM:
            # a dyadic rational with a 9..24-bit denominator: what a float16 / float32 rounding of 1/3, 1/9 ... looks like
            raise OutOfModel(f"low-precision rounding: {x!r}")
        g = f.limit_denominator(10**4)
        if abs(float(g) - x) <= 1.8e-15 * max(abs(x), 1e-300) and abs(g.numerator) < LIM:
            f = g
        else:
            raise OutOfModel(f"not a small rational: {x!r}")
    return [f.numerator, f.denominator]


def enc_arr(a) -> list:
    a = np.asarray(a)
    if a.dtype == bool:
        return [bool(x) for x in a.ravel()]
    return [enc_num(x) for x in a.ravel()]


def dec_num(q) -> float:
    return q[0] / q[1]


def dec_arr(sh, v, dtype=np.float64):
    if len(v) and isinstance(v[0], bool):
        return np.array(v, dtype=bool).reshape(sh)
    if len(v) and isinstance(v[0], int):
        return np.array(v, dtype=np.int64).reshape(sh)
    return np.array([dec_num(q) for q in v], dtype=dtype).reshape(sh)


# ----------------------------------------------------------------------------- index decoding
def dec_index(ix):
    t = ix["t"]
    if t == "basic":
        out = []
        for it in ix["items"]:
            k = it["t"]
            if k == "int":
                out.append(int(it["i"]))
            elif k == "slice":
                out.append(
                    slice(
                        None if it["nlo"] else it["lo"],
                        None if it["nhi"] else it["hi"],
                        None if it["nst"] else it["st"],
                    )
                )
            elif k == "new":
                out.append(None)
            elif k == "ell":
                out.append(Ellipsis)
            else:  # pragma: no cover
                raise ValueError(k)
        return tuple(out)
    if t == "adv":
        return tuple(np.array(a["v"], dtype=np.int64).reshape(a["sh"]) for a in ix["arrs"])
    if t == "mask":
        return np.array(ix["m"]["v"], dtype=bool).reshape(ix["m"]["sh"])
    raise ValueError(t)  # pragma: no cover


def sl(lo=None, hi=None, st=None):
    return {
        "t": "slice",
        "nlo": lo is None,
        "nhi": hi is None,
        "nst": st is None,
        "lo": 0 if lo is None else lo,
        "hi": 0 if hi is None else hi,
        "st": 1 if st is None else st,
    }


# ----------------------------------------------------------------------------- execution
_KW_PASSTHRU = ("axis", "keepdims", "ddof")


def _kw(stmt, for_np: bool):
    kw = stmt.get("kw", {}) or {}
    out = {}
    for k, v in kw.items():
        if k == "constant":
            if not for_np and v != "none":
                out["constant"] = v == "true"
        elif k == "axis":
            out["axis"] = None if v == "none" else (tuple(v) if len(v) != 1 or kw.get("axis_tuple") else v[0])
        elif k == "axis_tuple":
            pass
        else:
            out[k] = v
    return out


def _activation(be, f, x, s, kw):
    p1 = dec_num(s["p1"]) if "p1" in s else None
    p2 = dec_num(s["p2"]) if "p2" in s else None
    if be == "mg":
        if f == "leaky_relu":
            return mg.nnet.activations.leaky_relu(x, p1, **kw)
        if f == "hard_tanh":
            return mg.nnet.activations.hard_tanh(x, lower_bound=p1, upper_bound=p2, **kw)
        if f == "soft_sign":
            return mg.nnet.activations.soft_sign(x, **kw)
        return mg.clip(x, p1, p2, **kw)
    x = np.asarray(x)
    if f == "leaky_relu":
        return np.maximum(x, 0) + p1 * np.minimum(x, 0)
    if f == "hard_tanh":
        return np.maximum(p1, np.minimum(x, p2))
    if f == "soft_sign":
        return x / (1 + np.abs(x))
    return np.clip(x, p1, p2)


def _np_conv(x, w, stride, pad, dil):
    """Plain-loop N-d convolution (the twin's own definition: zero padding, 'valid' placements)."""
    nd = x.ndim - 2
    xp = np.pad(x, [(0, 0), (0, 0)] + [(p, p) for p in pad])
    osp = [(xp.shape[2 + j] - ((w.shape[2 + j] - 1) * dil[j] + 1)) // stride[j] + 1 for j in range(nd)]
    out = np.zeros((x.shape[0], w.shape[0], *osp), dtype=np.result_type(x, w))
    for o in np.ndindex(*osp):
        for k in np.ndindex(*w.shape[2:]):
            pos = tuple(o[j] * stride[j] + k[j] * dil[j] for j in range(nd))
            out[(slice(None), slice(None)) + o] += xp[(slice(None), slice(None)) + pos] @ w[(slice(None), slice(None)) + k].T
    return out


def _np_maxpool(x, pool, stride):
    nd = len(pool)
    lead = x.shape[: x.ndim - nd]
    osp = [(x.shape[x.ndim - nd + j] - pool[j]) // stride[j] + 1 for j in range(nd)]
    out = np.empty((*lead, *osp), dtype=x.dtype)
    for o in np.ndindex(*osp):
        win = x[(Ellipsis,) + tuple(slice(o[j] * stride[j], o[j] * stride[j] + pool[j]) for j in range(nd))]
        out[(Ellipsis,) + o] = win.reshape(*lead, -1).max(axis=-1)
    return out


import operator as _operator  # noqa: E402

_OPERATORS = {"add": _operator.add, "subtract": _operator.sub, "multiply": _operator.mul, "divide": _operator.truediv,
              "matmul": _operator.matmul, "negative": _operator.neg, "positive": _operator.pos, "power": None}      # (Tensor defines no __abs__)


class Exec:
    """Executes statements on one backend.  backend = "mg" (MyGrad tensors) or "np" (NumPy twin)."""

    def __init__(self, backend: str):
        self.be = backend
        self.H = {}  # handle -> Tensor | ndarray
        self.lib = mg if backend == "mg" else np
        self.owned = []  # (array, pristine copy) of every caller-owned array handed to MyGrad (C12)
        self.last_seed = None
        self.last_seed_copy = None
        self.seed_buf = None     # one caller-owned buffer whose slices are handed to backward() (statement field `seed_view`)
        self.n_seed_views = 0

    # -- operands
    def opnd(self, o):
        if "h" in o:
            return self.H[o["h"]]
        if "hd" in o:      # the tensor's own ndarray as a plain (constant) operand - `x.data`
            t = self.H[o["hd"]]
            return t.data if self.be == "mg" else t
        if "s" in o:
            return dec_num(o["s"])
        if "arr" in o:
            a = dec_arr(o["arr"]["sh"], o["arr"]["v"])
            if self.be == "mg":
                self.owned.append((a, a.copy()))
            return a
        raise ValueError(o)  # pragma: no cover

    def index(self, ixspec):
        ix = dec_index(ixspec)
        if self.be == "mg":
            for a in (ix if isinstance(ix, tuple) else (ix,)):
                if isinstance(a, np.ndarray):
                    self.owned.append((a, a.copy()))
        # spelling of the integer index arrays (the specification does not see it): ndarray / nested list / nested tuple /
        # integer tensor - all are the same advanced index to NumPy and must be to MyGrad
        sp = ixspec.get("as") if isinstance(ixspec, dict) else None
        if sp and ixspec["t"] == "adv":
            def spell(a):
                if sp == "list":
                    return a.tolist()
                if sp == "tuple":
                    def tup(x):
                        return tuple(tup(y) for y in x) if isinstance(x, list) else x
                    return tup(a.tolist())
                if sp == "tensor" and self.be == "mg":
                    return mg.tensor(a)
                if sp in ("i4", "i2", "i1", "u1", "u4"):      # index arrays of another integer dtype
                    return a.astype({"i4": np.int32, "i2": np.int16, "i1": np.int8, "u1": np.uint8, "u4": np.uint32}[sp])
                return a
            ix = tuple(spell(a) for a in ix)
            if sp == "bare" and len(ix) == 1:
                ix = ix[0]             # x[arr] rather than x[(arr,)]
        return ix

    def run(self, s):
        getattr(self, "do_" + s["k"])(s)

    # -- statements
    def do_leaf(self, s):
        dt = {"f8": np.float64, "f4": np.float32, "f2": np.float16, "i8": np.int64, "b1": np.bool_}[s.get("dt", "f8")]
        a = dec_arr(s["sh"], s["v"]).astype(dt)
        if s.get("order") == "F":
            a = np.asfortranarray(a)
        if self.be == "mg":
            # integer / boolean tensors are constant whatever is asked (C10); `const` is only passed for floats
            if s.get("dt", "f8") in ("i8", "b1"):
                self.H[s["h"]] = mg.tensor(a)
            else:
                self.H[s["h"]] = mg.tensor(a, constant=s["const"])
        else:
            self.H[s["h"]] = a

    def do_op(self, s):
        f = s["f"]
        L = self.lib
        xs = [self.opnd(o) for o in s["a"]]
        kw = _kw(s, self.be == "np")
        sp = s.get("sp")       # spelling: None = library function, "op" = Python operator, "method" = method of operand 0
        if sp == "op" and f in _OPERATORS and not kw and "wm" not in s:
            r = _OPERATORS[f](*xs) if f != "power" else xs[0] ** s["p"]
        elif sp == "method" and f in ("sum", "mean", "prod", "max", "min", "var"):
            r = getattr(xs[0], f)(**kw)
        elif "wm" in s and f in ("add", "subtract", "multiply", "maximum", "minimum", "negative", "positive", "square", "abs"):
            # where=mask without out=: the masked-out cells of the fresh result are uninitialised memory; both sides zero them
            m = np.array(s["wm"]["v"], dtype=bool).reshape(s["wm"]["sh"])
            fn = getattr(L, "abs" if f == "abs" else f)
            if self.be == "mg":
                r = fn(*xs, where=m, **kw)
                d = r.data                       # (locked by the memory guard like any array a graph holds: unlock for the fix-up)
                was = d.flags.writeable
                d.flags.writeable = True
                d[~np.broadcast_to(m, d.shape)] = 0
                d.flags.writeable = was
            else:
                bsh = np.broadcast_shapes(*[np.shape(x) for x in xs], m.shape)
                r = fn(*xs, where=m, out=np.zeros(bsh, dtype=np.result_type(*xs)))
        elif f in ("add", "subtract", "multiply", "divide", "maximum", "minimum", "matmul"):
            r = getattr(L, f)(*xs, **kw)
        elif f == "power":
            r = L.power(xs[0], s["p"], **kw)
        elif f in ("negative", "positive", "square", "reciprocal"):
            r = getattr(L, f)(xs[0], **kw)
        elif f == "abs":
            r = L.abs(xs[0], **kw)
        elif f == "relu":
            r = mg.nnet.activations.relu(xs[0], **kw) if self.be == "mg" else np.maximum(xs[0], 0.0) * 1.0
        elif f in ("sum", "mean", "prod", "max", "min", "var"):
            r = getattr(L, f)(xs[0], **kw)
        elif f == "where":
            c = dec_arr(s["cond"]["sh"], s["cond"]["v"])
            if s.get("cs") in ("i8", "i1", "f8"):        # the condition spelled as a 0/1 array of another dtype
                c = c.astype({"i8": np.int64, "i1": np.int8, "f8": np.float64}[s["cs"]])
            r = L.where(c, xs[0], xs[1], **kw)
        elif f == "concatenate":
            r = L.concatenate(xs, axis=s["axis"], **kw)
        elif f == "stack":
            r = L.stack(xs, axis=s["axis"], **kw)
        elif f == "getitem":
            r = xs[0][self.index(s["ix"])]
        elif f == "reshape":
            r = L.reshape(xs[0], tuple(s["sh"]), **kw)
        elif f == "transpose":
            r = L.transpose(xs[0], tuple(s["axes"]) if "axes" in s else None, **kw)
        elif f == "T":
            r = xs[0].T
        elif f == "swapaxes":
            r = L.swapaxes(xs[0], s["a1"], s["a2"], **kw)
        elif f == "moveaxis":
            r = L.moveaxis(xs[0], tuple(s["src"]), tuple(s["dst"]), **kw)
        elif f == "squeeze":
            r = L.squeeze(xs[0], axis=tuple(s["axis"]) if "axis" in s else None, **kw)
        elif f == "expand_dims":
            r = L.expand_dims(xs[0], s["axis"], **kw)
        elif f == "ravel":
            r = L.ravel(xs[0], **kw)
        elif f == "flatten":
            r = xs[0].flatten(**kw)
        elif f == "broadcast_to":
            r = L.broadcast_to(xs[0], tuple(s["sh"]), **kw)
        elif f == "repeat":
            r = L.repeat(xs[0], s["r"], axis=s["axis"], **kw)
        elif f == "roll":
            r = L.roll(xs[0], s["shift"], axis=s["axis"], **kw)
        elif f == "diag":
            r = L.einsum("ii->i", xs[0], **kw)
        elif f == "atleast":
            r = getattr(L, f"atleast_{s['nd']}d")(xs[0], **kw)
        elif f in ("leaky_relu", "hard_tanh", "soft_sign", "clip"):
            r = _activation(self.be, f, xs[0], s, kw)
        elif f in ("cumsum", "cumprod"):
            r = getattr(L, f)(xs[0], **kw)
        elif f in ("addseq", "mulseq"):
            if self.be == "mg":
                r = (mg.add_sequence if f == "addseq" else mg.multiply_sequence)(*xs, **kw)
            else:
                r = xs[0]
                for x in xs[1:]:
                    r = (np.add if f == "addseq" else np.multiply)(r, x)
        elif f == "multimatmul":
            r = mg.multi_matmul(xs, **kw) if self.be == "mg" else (np.linalg.multi_dot([np.asarray(x) for x in xs]) if len(xs) > 2
                                                                    else np.matmul(xs[0], xs[1]))
        elif f == "einsum":
            lab = lambda seq: "".join(chr(ord("a") + int(k)) for k in seq)  # noqa: E731
            r = L.einsum(",".join(lab(q) for q in s["subs"]) + "->" + lab(s["out"]), *xs, **kw)
        elif f == "conv":
            if self.be == "mg":
                r = mg.nnet.layers.conv_nd(xs[0], xs[1], stride=tuple(s["stride"]), padding=tuple(s["pad"]),
                                           dilation=tuple(s["dil"]), **kw)
            else:
                r = _np_conv(np.asarray(xs[0]), np.asarray(xs[1]), s["stride"], s["pad"], s["dil"])
        elif f == "maxpool":
            if self.be == "mg":
                r = mg.nnet.layers.max_pool(xs[0], tuple(s["pool"]), tuple(s["stride"]), **kw)
            else:
                r = _np_maxpool(np.asarray(xs[0]), s["pool"], s["stride"])
        elif f == "margin_ranking":
            y = dec_arr(s["y"]["sh"], s["y"]["v"])
            m = dec_num(s["margin"])
            if self.be == "mg":
                r = mg.nnet.losses.margin_ranking_loss(xs[0], xs[1], y, m, **kw)
            else:
                r = np.mean(np.maximum(0.0, m - y * (np.asarray(xs[0]) - np.asarray(xs[1]))))
        elif f == "multiclass_hinge":
            y = np.array(s["y"], dtype=np.int64)
            hg = dec_num(s["hinge"])
            if self.be == "mg":
                r = mg.nnet.losses.multiclass_hinge(xs[0], y, hg, **kw)
            else:
                x = np.asarray(xs[0])
                mm = np.maximum(0.0, x - x[np.arange(len(y)), y][:, None] + hg)
                mm[np.arange(len(y)), y] = 0.0
                r = mm.sum() / x.shape[0]
        else:  # pragma: no cover
            raise ValueError(f"unknown op {f}")
        if self.be == "np":
            r = np.asarray(r)
        self.H[s["h"]] = r

    def do_setitem(self, s):
        self.H[s["t"]][self.index(s["ix"])] = self.opnd(s["val"])

    def do_aug(self, s):
        t = self.H[s["t"]]
        v = self.opnd(s["val"])
        f = s["f"]
        if f == "add":
            t += v
        elif f == "subtract":
            t -= v
        elif f == "multiply":
            t *= v
        elif f == "divide":
            t /= v
        else:  # pragma: no cover
            raise ValueError(f)
        assert t is self.H[s["t"]]

    def do_uout(self, s):
        xs = [self.opnd(o) for o in s["a"]]
        kw = {}
        if "where" in s:
            kw["where"] = dec_arr(s["where"]["sh"], s["where"]["v"])
            if s.get("wsp") == "py" and np.ndim(kw["where"]) == 0:
                kw["where"] = bool(kw["where"])
        f = s["f"]
        if f == "abs":
            f = "absolute"
        fn = getattr(self.lib, f) if f != "relu" else None
        if self.be == "mg" and (s.get("kw") or {}).get("constant", "none") != "none":
            kw["constant"] = s["kw"]["constant"] == "true"
        r = fn(*xs, out=self.H[s["out"]], **kw)
        assert r is self.H[s["out"]]

    def do_backward(self, s):
        if self.be == "np":
            return
        if "seed" in s:
            seed = self.opnd(s["seed"])
            if s.get("seed_kind") == "pyscalar" and np.ndim(seed) == 0:
                seed = float(seed)
            elif s.get("seed_kind") == "tensor" and not isinstance(seed, mg.Tensor):
                seed = mg.tensor(seed)
            if s.get("seed_order") == "F" and isinstance(seed, np.ndarray) and seed.ndim >= 2:
                seed = np.asfortranarray(seed)
                self.owned.append((seed, seed.copy()))
            if s.get("seed_view") and isinstance(seed, np.ndarray) and seed.size <= 128 and self.n_seed_views < 8:
                # every gradient the caller passes is a slice of one buffer the caller owns
                if self.seed_buf is None:
                    self.seed_buf = np.zeros(8 * 128)
                off = 128 * self.n_seed_views
                self.n_seed_views += 1
                sv = self.seed_buf[off:off + seed.size].reshape(seed.shape)
                sv[...] = seed
                seed = sv
            self.last_seed = seed if isinstance(seed, np.ndarray) else None
            self.last_seed_copy = None if self.last_seed is None else self.last_seed.copy()
            self.H[s["h"]].backward(seed)
        else:
            self.H[s["h"]].backward()

    def do_setshape(self, s):
        import warnings

        with warnings.catch_warnings():
            warnings.simplefilter("ignore")  # NumPy 2.5 deprecates ndarray.shape assignment (it still works)
            self.H[s["t"]].shape = tuple(s["sh"])

    def do_copy(self, s):
        src = self.H[s["a"][0]["h"]]
        # Tensor.copy() is np.copy of the data (layout kept); the twin does the same
        self.H[s["h"]] = src.copy() if self.be == "mg" else np.copy(src)

    def do_editgrad(self, s):
        if self.be == "np":
            return
        g = self.H[s["h"]].grad
        if g is None:
            return  # nothing to edit (the specification treats this as a no-op too)
        g[dec_index(s["ix"])] = dec_num(s["c"])
        # MyGrad stores a seed array of matching dtype as the terminal's .grad itself: this edit is then the CALLER's own
        # modification of their array, not MyGrad's (re-baseline what the edit legitimately touched)
        if self.last_seed is not None and np.shares_memory(g, self.last_seed):
            self.last_seed_copy = self.last_seed.copy()
        self.owned = [(a, a.copy() if np.shares_memory(g, a) else c) for a, c in self.owned]

    def do_clear(self, s):
        if self.be == "mg":
            self.H[s["h"]].clear_graph()

    def do_nullgrad(self, s):
        if self.be == "mg":
            self.H[s["h"]].null_grad()

    def do_drop(self, s):
        del self.H[s["h"]]

    def _mgr(self, name):
        return {"no_autodiff": mg.no_autodiff, "mem_guard_off": mg.mem_guard_off, "mem_guard_on": mg.mem_guard_on}[name]

    def do_enter(self, s):
        if self.be == "mg":
            self._mgr(s["m"]).__enter__()

    def do_exit(self, s):
        if self.be == "mg":
            self._mgr(s["m"]).__exit__(None, None, None)

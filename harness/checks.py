"""Per-property check definitions (DESIGN section 5).  Each returns the process exit code."""
from __future__ import annotations

import collections
import json
import re
import os

from . import core, replay, tlc
from .driver import run_program
from .gen import PROFILES, gen_program

TRACE_SPEC = os.path.join(tlc.SPEC, "trace", "TraceRef.tla")
TRACE_CFG = os.path.join(tlc.SPEC, "trace", "TraceRef.cfg")

ALL_CLAUSES = ["val", "sh", "const", "share", "base", "cr", "grad", "gshare", "np_share"]


# ----------------------------------------------------------------------------- building blocks
def stage_replay(out: core.Outcome, *, max_stmts, max_h, cases, alphabet, simulate=None, fields=replay.FIELDS):
    """spec -> code.  TLC enumerates behaviours of RefGen (one JVM per leaf case, output to scratch files); the
    behaviours are replayed on the implementation by a pool of worker processes."""
    import multiprocessing
    import shutil
    import tempfile

    scratch = tempfile.mkdtemp(prefix="verif-gen-")
    tot_states = tot_dist = n_beh = n_ok = 0
    mism = collections.Counter()
    try:
        res = replay.enumerate_to_files(max_stmts, max_h, cases, alphabet, scratch, simulate=simulate, seed=out.seed)
        open_kfs = {k["key"]: k.get("clauses") for k in out.kfs if k["status"] == "open"}
        tasks = []
        for case in cases:
            rc, path, wall = res[case]
            with open(path, "rb") as f:
                f.seek(max(0, os.path.getsize(path) - 20000))
                tail = f.read().decode(errors="replace")
            stats = tlc.parse_stats(tail)
            if rc != 0 or (stats is None and not simulate):
                if "is violated" in tail:
                    out.machinery(f"RefGen design invariant violated (case {case}): {tail[-1200:]}")
                else:
                    out.machinery(f"RefGen TLC run failed (case {case}, rc={rc}): {tail[-1200:]}")
                continue
            if stats:
                tot_states += stats["generated"]
                tot_dist += stats["distinct"]
            chunks, total = replay.chunk_offsets(path)
            tasks += [(path, lo, hi, fields, open_kfs) for lo, hi in chunks]
        nviol = 0
        if tasks:
            ctx = multiprocessing.get_context("fork")
            with ctx.Pool(min(16, len(tasks))) as pool:
                for r in pool.imap_unordered(replay.compare_chunk, tasks):
                    if r["bad_lines"]:
                        out.machinery(f"{r['bad_lines']} unparsable BEHAVIOUR lines")
                    n_beh += r["n"]
                    n_ok += r["ok"]
                    out.judged += r["n"]
                    mism["out_of_model"] += r["oom"]
                    for m in r["npmm"]:
                        mism["np_model_mismatch"] += 1
                        out.model_mismatches.append(m or {"clause": "exc", "line": 0, "program": []})
                    for k, v in r["kf"].items():
                        mism["kf:" + k] += v
                        for _ in range(v):
                            out.kf_hit(k)
                    if r["sample"] is not None:
                        out.add_sample({"kind": "replayed_behaviour", "statements": r["sample"]}, limit=4)
                    for v in r["viol"]:
                        nviol += 1
                        if v is None:
                            out.violations.append("(further violations of this chunk not stored)")
                            continue
                        mism["mismatch:" + str(v["field"])] += 1
                        out.violation({"kind": "replay", **v},
                                      f"TLC-generated behaviour: implementation disagrees with spec at statement {v['failing_line']}, "
                                      f"field '{v['field']}' of handle {v['handle']}: predicted {json.dumps(v['predicted'])[:200]} "
                                      f"observed {json.dumps(v['observed'])[:200]}")
        mism = collections.Counter({k: v for k, v in mism.items() if v})
    finally:
        shutil.rmtree(scratch, ignore_errors=True)
    cov = out.coverage
    cov["states"] = cov.get("states", 0) + tot_dist
    cov["transitions"] = cov.get("transitions", 0) + tot_states
    cov["behaviours_replayed"] = cov.get("behaviours_replayed", 0) + n_beh
    cov["behaviours_agreeing"] = cov.get("behaviours_agreeing", 0) + n_ok
    cov.setdefault("replay_stages", []).append(
        {"max_stmts": max_stmts, "max_handles": max_h, "cases": list(cases), "alphabet": list(alphabet),
         "mode": "simulate" if simulate else "exhaustive", "behaviours": n_beh, "agree": n_ok, "other": dict(mism)})
    return n_beh


def _gen_and_run(job):
    """Worker: generates and executes `count` programs of a profile starting at generator seed `first`."""
    profile, first, count = job
    res = []
    for gs in range(first, first + count):
        prog = gen_program(gs, PROFILES[profile])
        res.append((prog, run_program(prog), gs))
    return res


def stage_traces(out: core.Outcome, *, profile: str, n: int, clauses, seed_offset=0, transform=None):
    """code -> spec.  Random programs (seeded) executed on the implementation, traces validated by TLC.
    Large stages run in batches (generate / execute / validate / discard) so that memory stays bounded."""
    import hashlib

    base = out.seed * 1_000_003 + seed_offset
    BATCH = 2500
    counts = collections.Counter()
    kinds = collections.Counter()
    stats = {"distinct": 0, "generated": 0}
    seen = set()
    skipped = n_items = n_statements = 0
    sample = None
    for b0 in range(0, n, BATCH):
        bn = min(BATCH, n - b0)
        items = []
        if n >= 400 and transform is None:
            # generation + execution spread over worker processes (each program runs in a fresh global state anyway)
            import multiprocessing

            jobs = [(profile, base + b0 + k, min(250, bn - k)) for k in range(0, bn, 250)]
            with multiprocessing.get_context("fork").Pool(min(16, len(jobs))) as pool:
                for part in pool.imap(_gen_and_run, jobs):
                    for prog, tr, gs in part:
                        if tr is None:
                            skipped += 1
                        else:
                            items.append({"prog": prog, "trace": tr, "meta": {"profile": profile, "gen_seed": gs}})
        else:
            for i in range(b0, b0 + bn):
                prog = gen_program(base + i, PROFILES[profile])
                if transform:
                    prog = transform(prog)
                tr = run_program(prog)
                if tr is None:
                    skipped += 1
                    continue
                items.append({"prog": prog, "trace": tr, "meta": {"profile": profile, "gen_seed": base + i}})
        for it in items:
            for st_ in it["prog"]:
                kinds[st_["k"] if st_["k"] != "op" else "op:" + st_["f"]] += 1
                if st_.get("fail"):
                    kinds["failing statements"] += 1
            seen.add(hashlib.sha1(json.dumps(it["prog"], sort_keys=True).encode()).digest())
            n_statements += len(it["trace"])
        c_, s_ = core.validate_traces(out, TRACE_SPEC, TRACE_CFG, clauses, items)
        counts.update(c_)
        stats["distinct"] += s_["distinct"]
        stats["generated"] += s_["generated"]
        n_items += len(items)
        if sample is None and items:
            sample = items[0]["prog"]
        del items
    cov = out.coverage
    cov["traces_validated_against_impl"] = cov.get("traces_validated_against_impl", 0) + n_items
    cov["states"] = cov.get("states", 0) + stats["distinct"]
    cov["transitions"] = cov.get("transitions", 0) + stats["generated"]
    cov.setdefault("trace_stages", []).append(
        {"profile": profile, "programs": n_items, "distinct_programs": len(seen), "out_of_model": skipped,
         "statements": n_statements, "clauses": list(clauses), "verdicts": dict(counts),
         "statement_kinds": dict(sorted(kinds.items()))})
    if sample is not None:
        out.add_sample({"kind": "validated_trace", "program": sample}, limit=4)
    if n and skipped > 0.05 * n:
        out.machinery(f"{skipped}/{n} programs left the exact fragment (>5%)")
    return counts


def selftest_binding(out: core.Outcome, profile: str, clauses):
    """The binding binds: corrupt one logged field / drop one statement of an accepted trace -> must be rejected."""
    import copy

    prog = None
    for i in range(50):
        p = gen_program(777 + i, PROFILES[profile])
        tr = run_program(p)
        if tr and len(tr) >= 4 and tr[-1]["exc"] == "none":
            prog = p
            break
    if prog is None:
        out.machinery("selftest: no usable program")
        return
    bad1 = copy.deepcopy(tr)
    # corrupt a value of the last live handle on the last line
    last = [t for t in bad1[-1]["obs"]["t"] if t["live"]][-1]
    last["v"][0] = [last["v"][0][0] + 1, last["v"][0][1]]
    bad2 = copy.deepcopy(tr)
    # a "missed hook": the observation logged after the last state-changing statement is the stale previous one
    k = max(i for i in range(1, len(tr)) if json.dumps(tr[i]["obs"], sort_keys=True) != json.dumps(tr[i - 1]["obs"], sort_keys=True))
    bad2[k]["obs"] = copy.deepcopy(bad2[k - 1]["obs"])
    if len(bad2[k]["obs"]["t"]) < len(tr[k]["obs"]["t"]):
        bad2[k]["obs"]["t"] += [{"live": False}] * (len(tr[k]["obs"]["t"]) - len(bad2[k]["obs"]["t"]))
    scratch = __import__("tempfile").mkdtemp(prefix="verif-self-")
    try:
        v, _, _ = tlc.validate_batch(TRACE_SPEC, TRACE_CFG, clauses, [tr, bad1, bad2], scratch, "self")
    finally:
        __import__("shutil").rmtree(scratch, ignore_errors=True)
    res = {"original": v[1][0], "corrupted_value": v[2][0], "stale_observation": v[3][0]}
    out.coverage["binding_selftest"] = res
    if v[1][0] != "ok" or v[2][0] == "ok" or v[3][0] == "ok":
        out.machinery(f"binding self-test failed: {res}")


def finish_model_checking(out: core.Outcome, rule: str):
    cov = out.coverage
    cov.setdefault("states", 0)
    cov.setdefault("transitions", 0)
    cov.setdefault("traces_validated_against_impl", 0)
    cov["rule"] = rule
    cov["evaluations"] = cov.get("behaviours_replayed", 0) + cov.get("traces_validated_against_impl", 0)
    cov["distinct_nontrivial"] = sum(s["behaviours"] for s in cov.get("replay_stages", [])) + \
        sum(s["distinct_programs"] for s in cov.get("trace_stages", []))
    cov["trusted_base"] = ["TLC 1.8 / SANY", "CommunityModules Json/IOUtils", "harness/driver.py projection",
                           "NumPy (twin executions)"]
    return out.finish()


# ----------------------------------------------------------------------------- properties over Ref
REF_PROPS = {
    # id: (alphabet for spec->code, trace profiles, clauses)
    "C01": dict(alphabet=["bin", "scal", "sum", "matmul", "view", "square", "cum", "act", "ein"], profiles=["c01"],
                clauses=["val", "sh", "const", "grad", "cr", "np_share"], depth=(2, 3), cases=[1, 2, 3, 4, 5, 6],
                quick_n=700, thorough_n=20000),
    "C04": dict(deep=True, alphabet=["scal", "view", "setitem", "aug"], profiles=["c04"],
                clauses=["val", "sh", "const", "share", "base", "np_share"], depth=(2, 3), cases=[1, 2, 3, 4, 5, 6, 7, 8],
                quick_n=900, thorough_n=30000),
    "C05": dict(alphabet=["bin", "scal", "sum", "view", "setitem", "aug"], profiles=["c05"],
                clauses=["val", "sh", "const", "share", "base", "grad", "np_share"], depth=(2, 3), cases=[1, 2, 3, 5, 7],
                quick_n=600, thorough_n=20000),
    "C06": dict(alphabet=["bin", "scal", "sum", "view"], profiles=["c06"],
                clauses=["val", "sh", "base", "grad", "gshare", "np_share"], depth=(2, 3), cases=[1, 2, 4, 6, 7, 8],
                quick_n=700, thorough_n=20000),
    "C07": dict(alphabet=["bin", "scal", "sum", "view", "setitem"], profiles=["c07"],
                clauses=["val", "sh", "grad", "cr", "released", "leak", "base", "np_share"], depth=(2, 3), cases=[2, 5],
                quick_n=1200, thorough_n=15000),
    "C09": dict(alphabet=["bin", "scal", "sum", "setitem"], profiles=["c09"],
                clauses=["val", "sh", "grad", "cr", "np_share"], depth=(2, 3), cases=[2, 5],
                quick_n=1500, thorough_n=20000),
    "C10": dict(alphabet=["bin", "scal", "sum", "matmul", "view", "aug"], profiles=["c10"],
                clauses=["val", "sh", "const", "grad", "np_share"], depth=(2, 3), cases=[3],
                quick_n=800, thorough_n=20000),
    "C12": dict(alphabet=["bin", "scal", "sum", "matmul", "view"], profiles=["c12"],
                clauses=["val", "sh", "grad", "gshare", "gdata", "inputs", "share", "np_share"], depth=(2, 3), cases=[1, 2],
                quick_n=700, thorough_n=20000),
    "C13": dict(alphabet=["bin", "scal", "view", "setitem", "aug"], profiles=["c13"],
                clauses=["val", "sh", "const", "base", "share", "cr", "grad", "np_share"], depth=(2, 3), cases=[1, 5],
                quick_n=700, thorough_n=20000),
    "C14": dict(alphabet=["bin", "scal", "sum", "matmul", "view"], profiles=["c14"],
                clauses=["val", "sh", "grad", "gtyped", "np_share"], depth=(2, 3), cases=[2, 4, 6],
                quick_n=900, thorough_n=25000),
}


def stage_optable(out: core.Outcome, groups):
    """Cells of spec/OpTable.tla (exact values and VJPs from Ref.tla's dual numbers) replayed on the implementation."""
    import shutil
    import tempfile
    from concurrent.futures import ThreadPoolExecutor

    spec = os.path.join(tlc.SPEC, "OpTable.tla")
    scratch = tempfile.mkdtemp(prefix="verif-op-")
    res = {}

    def work(g):
        cfg = os.path.join(scratch, g + ".cfg")
        with open(cfg, "w") as f:
            f.write(f'SPECIFICATION Spec\nCONSTANTS\n  Group = "{g}"\nINVARIANT Emit\nCHECK_DEADLOCK FALSE\n')
        res[g] = tlc.run_tlc(spec, cfg, workers=1, timeout=3000)

    try:
        with ThreadPoolExecutor(max_workers=8) as ex:
            list(ex.map(work, groups))
        per = {}
        for g in groups:
            rc, o, wall = res[g]
            st = tlc.parse_stats(o)
            behs, bad = replay.parse_behaviours(o)
            if rc != 0 or st is None or bad or len(behs) != st["distinct"]:
                out.machinery(f"OpTable.tla ({g}) failed rc={rc} bad={bad}: {o[-1200:]}")
                continue
            out.coverage["states"] = out.coverage.get("states", 0) + st["distinct"]
            out.coverage["transitions"] = out.coverage.get("transitions", 0) + st["generated"]
            out.judged += len(behs)
            nb = 0
            for b in behs:
                r = replay.compare(b)
                if r is None:
                    continue
                line, field, h, pred, obs = r
                if line == "out_of_model":
                    out.out_of_model += 1
                    continue
                if line == "np_model_mismatch":
                    out.model_mismatches.append({"clause": "exc", "line": field, "program": [e["stmt"] for e in b]})
                    continue
                kfs = set(b[line - 1]["proj"]["kf"]) if b[line - 1]["proj"] else set()
                hit = next((k for k in sorted(kfs) if out.open_kf(k)), None)
                if hit:
                    out.kf_hit(hit)
                    continue
                nb += 1
                out.violation({"kind": "optable", "group": g, "program": [e["stmt"] for e in b], "failing_line": line, "field": field,
                               "handle": h, "predicted": pred, "observed": obs},
                              f"operation table ({g}): statement {line}, field '{field}' of handle {h}: exact value/VJP "
                              f"{json.dumps(pred)[:160]} but MyGrad gives {json.dumps(obs)[:160]}")
            per[g] = {"cells": len(behs), "disagree": nb}
            out.coverage["behaviours_replayed"] = out.coverage.get("behaviours_replayed", 0) + len(behs)
            out.coverage["behaviours_agreeing"] = out.coverage.get("behaviours_agreeing", 0) + len(behs) - nb
            out.coverage.setdefault("replay_stages", []).append(
                {"spec": "OpTable.tla", "group": g, "mode": "exhaustive (every cell)", "behaviours": len(behs), "agree": len(behs) - nb})
        return per
    finally:
        shutil.rmtree(scratch, ignore_errors=True)


def check_ref_property(prop: str, tier: str, seed: int) -> int:
    cfg = REF_PROPS[prop]
    out = core.Outcome(prop, tier, seed, "model_checking")
    quick = tier == "quick"
    try:
        # spec -> code: every program of <= depth[0] statements (exhaustive); thorough adds either every program of
        # <= depth[1] statements (where that is tractable: cfg["deep"]) or seeded TLC simulations of longer programs
        stage_replay(out, max_stmts=cfg["depth"][0], max_h=5, cases=cfg["cases"], alphabet=cfg["alphabet"])
        if not quick:
            if cfg.get("deep"):
                stage_replay(out, max_stmts=cfg["depth"][1], max_h=5, cases=cfg["cases"], alphabet=cfg["alphabet"])
            else:
                stage_replay(out, max_stmts=5, max_h=7, cases=cfg["cases"], alphabet=cfg["alphabet"], simulate=(1200, 12))
        for prof in cfg["profiles"]:
            stage_traces(out, profile=prof, n=cfg["quick_n"] if quick else cfg["thorough_n"], clauses=cfg["clauses"])
        selftest_binding(out, cfg["profiles"][0], cfg["clauses"])
        if prop == "C14":
            stage_layer_typing(out, want=("shape", "dtype", "type", "grad"))
        if prop == "C12":
            stage_layer_typing(out, want=("seed",))
        if prop == "C10":
            # constant= handling of the constructors / converters (cells of Construct.tla that pass constant=, or
            # start from a constant / integer tensor)
            total, agree, per = stage_construct_tables(
                out, ["construct", "convert"],
                lambda c: c.get("constant", "none") != "none" or c.get("kind") in ("tconst", "tint", "arri8", "listi", "pyint"))
            out.coverage["construct_table_cells"] = {"executed": total, "agreeing": agree, "per_table": per}
            # constants among the operands (constant tensors, plain arrays, a tensor's own ndarray `x.data`, Python
            # scalars): exact values, flags and gradients of the cells of the operation table that mix them
            stage_optable(out, ["binary", "einsum", "sequence", "matmul"])
        if prop == "C13":
            stage_memguard_failures(out)
        if prop == "C09":
            # a backward() asked again after a refused one, for every operation that keeps state between passes
            stage_retry(out)
        if prop == "C04":
            # in-place updates through view chains on C- and Fortran-ordered bases, and `.shape` assigned on a view of a
            # view followed by another update in the family: the cells of the operation table, every handle's values compared
            stage_optable(out, ["inplace"])
        if prop == "C12":
            # indexing with every spelling of the index arrays, masked operations: the caller's arrays stay as they were
            stage_optable(out, ["getitem", "setitem", "wheremask", "whereout"])
        if prop == "C05":
            # exact gradients through in-place updates: the in-place cells of the operation table (view chains on C- and
            # Fortran-ordered bases, every index kind of setitem, where=/out= masks)
            stage_optable(out, ["inplace", "setitem", "whereout"])
    except tlc.MachineryError as e:
        out.machinery(str(e)[:3000])
    out.assumptions += [
        "values stay in the exact fragment (small rationals; float64 arithmetic on them is exact)",
        "the statement alphabet and bounds given in coverage.replay_stages / trace_stages",
    ]
    return finish_model_checking(
        out,
        "spec->code: every behaviour TLC enumerates from spec/RefGen.tla within the stated alphabet/bounds is replayed "
        "(distinct by construction: distinct TLC states); code->spec: seeded random programs, distinct = distinct "
        "statement lists; non-trivial = contains at least one operation beyond the leaves")


def replay_file(path: str) -> int:
    """Re-runs a stored replay against the current tree; prints the verdict (exit 0: agrees now, 1: still disagrees)."""
    import importlib
    import shutil
    import tempfile

    r = json.load(open(path))
    if "program" in r:          # history replays (trace / TLC-generated behaviour / operation-table cell)
        tr = run_program(r["program"])
        if tr is None:
            print("verdict: the program leaves the exact fragment on this tree")
            return 2
        scratch = tempfile.mkdtemp(prefix="verif-rp-")
        try:
            v, o, _ = tlc.validate_batch(TRACE_SPEC, TRACE_CFG, r.get("clauses") or ALL_CLAUSES, [tr], scratch, "rp")
        finally:
            shutil.rmtree(scratch, ignore_errors=True)
        print("verdict:", v[1])
        for m in re.finditer(r'<<\s*"(EXPECTED-[A-Z]+|TAINT)"', o):
            j = o.find("\n<<", m.start() + 2)
            print(" ".join(o[m.start(): j if j > 0 else m.start() + 3000].split())[:3000])
        return 0 if v[1][0] == "ok" else 1
    if "rerun" in r:            # table cells / mechanism behaviours: the stored payload is executed again
        from .driver import reset_global_state

        mod, fn, args = r["rerun"]
        reset_global_state()
        res = getattr(importlib.import_module("harness." + mod), fn)(*args)
        reset_global_state()
        bad = bool(res) and not (isinstance(res, (list, tuple)) and len(res) >= 5 and res[4] is True and mod == "memguard")
        print("verdict:", "agrees with the specification" if not bad else f"disagrees: {str(res)[:1500]}")
        return 1 if bad else 0
    print("this replay file predates re-runnable payloads; kind =", r.get("kind"))
    return 2


# ----------------------------------------------------------------------------- C15: scoped switches
def check_C15(tier: str, seed: int) -> int:
    from . import ctx

    out = core.Outcome("C15", tier, seed, "model_checking")
    quick = tier == "quick"
    spec = os.path.join(tlc.SPEC, "Context.tla")
    try:
        # (1) design: exhaustive over all well-nested sequences (contexts / decorators / raising exits / turn_*)
        info, o, violated = core.design_run(out, spec, os.path.join(tlc.SPEC, "Context_mc.cfg"), workers=16,
                                            label="Context exhaustive (nesting depth 5, turn_* also inside scopes)")
        if violated:
            out.machinery("Context.tla: a design property is violated - the mechanism spec itself is wrong: " + o[-800:])
        out.coverage["states"] = out.coverage.get("states", 0) + (info["distinct_states"] or 0)
        out.coverage["transitions"] = out.coverage.get("transitions", 0) + (info["states_generated"] or 0)
        # (2) spec -> code: every behaviour of length MaxLen replayed with real `with` blocks / decorators / raises
        import tempfile, shutil

        scratch = tempfile.mkdtemp(prefix="verif-ctx-")
        try:
            cfg = os.path.join(scratch, "Context_emit.cfg")
            with open(cfg, "w") as f:
                f.write(f"SPECIFICATION Spec\nCONSTANTS\n  MaxLen = {5 if quick else 6}\n  MaxDepth = {4 if quick else 5}\n"
                        "  TurnInside = TRUE\n  EmitHist = TRUE\nINVARIANT DepthConsistent\nINVARIANT Emit\nPROPERTY ScopedRestore\nCHECK_DEADLOCK FALSE\n")
            # (the dump is streamed from a file: at length 6 it is ~10^6 behaviours; length 7 - tens of gigabytes - was
            #  dropped from the thorough tier after it exhausted the machine's memory)
            dump = os.path.join(scratch, "behaviours.out")
            rc, wall = tlc.run_tlc_to_file(spec, cfg, dump, workers=1, timeout=3000, heap="8g")
            nbeh = nbad = bad = 0
            mid = None
            tailtxt = ""
            with open(dump) as fdump:
                for line in fdump:
                    if not line.startswith('<<"BEHAVIOUR", '):
                        if "states generated" in line or "Error" in line:
                            tailtxt += line
                        continue
                    body = line.rstrip("\n")[len('<<"BEHAVIOUR", '):]
                    try:
                        b = json.loads(json.loads(body[:-2])) if body.endswith(">>") else None
                    except Exception:  # noqa: BLE001
                        b = None
                    if b is None:
                        bad += 1
                        continue
                    nbeh += 1
                    if nbeh == 1000:
                        mid = [e["ev"] for e in b]
                    r = ctx.compare(b)
                    if r is not None:
                        nbad += 1
                        line_, what, pred, obs = r
                        out.violation({"kind": "context-replay", "rerun": ["ctx", "compare", [b]], "events": [e["ev"] for e in b], "failing_event": line_,
                                       "predicted_track_guard": pred, "observed_track_guard": obs},
                                      f"scoped switches: after event {line_} the spec predicts (track, guard)={pred}, the code has {obs}")
            st2 = tlc.parse_stats(tailtxt)
        finally:
            shutil.rmtree(scratch, ignore_errors=True)
        if rc != 0 or bad or not nbeh:
            out.machinery(f"Context emission failed rc={rc} bad={bad} n={nbeh}: {tailtxt[-600:]}")
        out.judged += nbeh
        out.coverage["behaviours_replayed"] = nbeh
        out.coverage["behaviours_agreeing"] = nbeh - nbad
        out.coverage["replay_stages"] = [{"spec": "Context.tla", "behaviours": nbeh, "max_len": 5 if quick else 6,
                                          "mode": "exhaustive", "agree": nbeh - nbad}]
        if st2:
            out.coverage["states"] += st2["distinct"]
            out.coverage["transitions"] += st2["generated"]
        if mid:
            out.add_sample({"kind": "replayed_context_behaviour", "events": mid})
        # (3) code -> spec: programs run inside random nestings of the scopes, validated against Ref.tla
        # code -> spec on the repository's OWN tests: scope events recorded by the guarded hook, validated against Context.tla
        import shutil as _sh
        import tempfile as _tf

        from . import ctxtrace

        sc = _tf.mkdtemp(prefix="verif-ctx-")
        try:
            recs, tail, prc = ctxtrace.record(ctxtrace.QUICK_MODULES if quick else ctxtrace.THOROUGH_MODULES, sc)
            if prc not in (0, 1):
                out.machinery(f"pytest with hooks on failed (rc={prc}): {tail}")
            results, cst = ctxtrace.validate(recs, sc)
            nrej = 0
            for r in results:
                if r["verdict"] == "ok":
                    continue
                nrej += 1
                out.violation({"kind": "context-trace", "rerun": ["ctxtrace", "revalidate", [r["events"]]], "tests": r["tests"][:5], "events": r["events"][:r["line"] + 1][-40:],
                               "failing_event": r["line"], "spec_state_before": r["expected_state"]},
                              f"scope events of repository test {r['tests'][0]} are not a behaviour of Context.tla "
                              f"(event {r['line']}: {json.dumps(r['events'][r['line'] - 1])})")
            cst["rejected_traces"] = nrej
            cst["pytest_tail"] = tail[-160:]
            out.coverage["repository_test_traces"] = cst
            out.judged += cst["tests_with_events"]
            out.coverage["states"] = out.coverage.get("states", 0) + cst["tlc_states"]
            out.coverage["transitions"] = out.coverage.get("transitions", 0) + cst["tlc_transitions"]
            out.coverage["traces_validated_against_impl"] = out.coverage.get("traces_validated_against_impl", 0) + cst["tests_with_events"]
        finally:
            _sh.rmtree(sc, ignore_errors=True)
        stage_traces(out, profile="c15", n=1200 if quick else 15000,
                     clauses=["val", "sh", "const", "share", "base", "cr", "grad", "track", "np_share"])
    except tlc.MachineryError as e:
        out.machinery(str(e)[:3000])
    out.assumptions += ["scopes are exited in LIFO order (with-statements / decorators); turn_memory_guarding_* only outside scopes"]
    return finish_model_checking(
        out, "Context.tla: exhaustive state graph to nesting depth 5 (turn_memory_guarding_* also inside scopes); every behaviour of the stated length is replayed with "
             "real with-blocks/decorators/raising bodies; plus random programs inside scopes validated against Ref.tla")


# ----------------------------------------------------------------------------- C08: memory guard
MG_ALPHABET = '{"newarr", "npview", "freeze", "wrap", "op", "opout", "view", "fail", "failout", "clear", "dropt", "dropa"}'
MG_ALPHA_A = '{"newarr", "npview", "freeze", "wrap", "op", "view", "fail", "clear", "dropt", "dropa"}'
MG_ALPHA_B = '{"newarr", "npview", "wrap", "op", "opout", "failout", "clear", "dropt", "dropa"}'
MG_ALPHA_C = '{"newarr", "freeze", "wrap", "op", "inplace", "clear", "dropt", "dropa"}'
MG_ALPHA_C_ONLY = '{"newarr", "freeze", "wrap", "inplace", "clear", "dropt", "dropa"}'   # one statement deeper
MG_ALPHA_D = '{"newarr", "wrap", "view", "op", "inplacefam", "clear", "dropt"}'     # in-place updates inside view families
MG_ALPHA_E = '{"newarr", "wrap", "op", "view", "dataof", "clear", "dropt", "dropa"}'   # the user keeps t.data of results and views
MG_ALPHABET_SIM = ('{"newarr", "npview", "freeze", "wrap", "op", "opout", "inplace", "inplacefam", "view", "dataof", "fail", "failout", '
                   '"clear", "dropt", "dropa"}')


def _mg_cfg(path, na, nt, no, maxlen, emit, invariants, alphabet=None):
    with open(path, "w") as f:
        f.write(f"SPECIFICATION Spec\nCONSTANTS\n  NA = {na}\n  NT = {nt}\n  NO = {no}\n  MaxLen = {maxlen}\n"
                f"  EmitHist = {'TRUE' if emit else 'FALSE'}\n  Alphabet = {alphabet or MG_ALPHABET}\n"
                + "".join(f"INVARIANT {i}\n" for i in invariants) + "CHECK_DEADLOCK FALSE\n")


# minimal witness histories of the open known findings (also TLC's counterexamples to NoKF2 / NoKF3)
KF_WITNESS = {
    "F-C08-2": [
        ({"k": "newarr", "w": True}, [1], []), ({"k": "npview", "a": 1}, [2], []), ({"k": "freeze", "a": 1}, [], []),
        ({"k": "op", "ins": [["a", 2]]}, [], [2]), ({"k": "dropt", "t": 2}, [], []),
    ],
    "F-C08-3": [
        ({"k": "newarr", "w": True}, [1], []), ({"k": "npview", "a": 1}, [2], []), ({"k": "freeze", "a": 2}, [], []),
        ({"k": "op", "ins": [["a", 1], ["a", 2]]}, [], [3]), ({"k": "dropt", "t": 3}, [], []),
    ],
}


def _kf_witness_still_fails(key) -> bool:
    """Re-executes the witness of a known finding on the current tree (True = the defect is still there)."""
    import gc
    from . import memguard
    from .driver import reset_global_state

    reset_global_state()
    was = gc.isenabled()
    gc.disable()
    w = memguard.World()
    try:
        orig = {}
        for ev, newa, newt in KF_WITNESS[key]:
            w.run(ev, newa, newt)
            if ev["k"] in ("newarr", "npview", "freeze"):
                for a in w.A:
                    orig[a] = w.A[a].flags.writeable if ev["k"] != "freeze" or a == ev["a"] else orig.get(a, True)
        return any(w.A[a].flags.writeable != orig[a] for a in w.A)
    finally:
        w.A.clear()
        w.T.clear()
        reset_global_state()
        if was:
            gc.enable()


MG_ALPHA_FAIL = '{"newarr", "npview", "freeze", "wrap", "op", "fail", "failout", "dropt"}'


def stage_memguard_failures(out: core.Outcome, maxlen: int = 4):
    """C13 (a failed operation leaves no lock behind): every MemGuard.tla behaviour of the stated length over the
    alphabet with failing operations (bad where= mask, bad out=, read-only out=) replayed on real arrays."""
    import shutil
    import tempfile

    from . import memguard

    spec = os.path.join(tlc.SPEC, "MemGuard.tla")
    scratch = tempfile.mkdtemp(prefix="verif-mgf-")
    try:
        cfg = os.path.join(scratch, "emit.cfg")
        _mg_cfg(cfg, 3, 4, 2, maxlen, True, ["Emit"], MG_ALPHA_FAIL)
        rc, o, wall = tlc.run_tlc(spec, cfg, workers=1, timeout=1500, heap="8g")
        behs, bad = replay.parse_behaviours(o)
        if rc != 0 or bad or not behs:
            out.machinery(f"MemGuard emission failed rc={rc} bad={bad} n={len(behs)}: {o[-600:]}")
            return
        behs = [b for b in behs if any(e["ev"]["k"] in ("fail", "failout") for e in b)]
        out.judged += len(behs)
        nbad = 0
        for b in behs:
            r = memguard.compare(b)
            if r is None or r[4]:
                continue
            nbad += 1
            out.violation({"kind": "memguard-replay", "rerun": ["memguard", "compare", [b]], "events": [e["ev"] for e in b], "failing_event": r[0], "field": r[1],
                           "predicted": r[2], "observed": r[3]},
                          f"failed operation leaves a lock behind: after event {r[0]} the writeable flags differ from "
                          f"MemGuard.tla ({r[1]}: predicted {r[2]}, observed {r[3]})")
        st = tlc.parse_stats(o)
        out.coverage.setdefault("replay_stages", []).append(
            {"spec": "MemGuard.tla", "mode": "exhaustive, behaviours containing a failing operation", "max_len": maxlen,
             "behaviours": len(behs), "agreeing": len(behs) - nbad, "states": st["distinct"] if st else None})
        out.coverage["behaviours_replayed"] = out.coverage.get("behaviours_replayed", 0) + len(behs)
    finally:
        shutil.rmtree(scratch, ignore_errors=True)


def check_C08(tier: str, seed: int) -> int:
    import shutil
    import tempfile

    from . import memguard

    out = core.Outcome("C08", tier, seed, "model_checking")
    quick = tier == "quick"
    spec = os.path.join(tlc.SPEC, "MemGuard.tla")
    scratch = tempfile.mkdtemp(prefix="verif-mg-")
    try:
        # (1) design: exhaustive over all histories incl. every order of drops / clears / failures
        cfg = os.path.join(scratch, "mc.cfg")
        na, nt, no = (3, 4, 2)
        out.coverage["states"] = 0
        out.coverage["transitions"] = 0
        for lab, alpha in (("A: views, freezes, failures", MG_ALPHA_A), ("B: out= targets, failing out=", MG_ALPHA_B),
                           ("C: in-place tensor updates", MG_ALPHA_C)):
            _mg_cfg(cfg, na, nt, no, 0, False, ["Safe", "Restored", "NoLeak", "CountersSane"], alpha)
            info, o, violated = core.design_run(out, spec, cfg, workers=16, timeout=3000, coverage=False,
                                                label=f"MemGuard exhaustive NA={na} NT={nt} NO={no} alphabet {lab}")
            if violated:
                out.machinery("MemGuard.tla: TLC found a design-level violation outside the listed known findings; it must "
                              "be replayed and triaged (see DESIGN 4.3): " + o[o.find("Error:"):][:1500])
            out.coverage["states"] += info["distinct_states"] or 0
            out.coverage["transitions"] += info["states_generated"] or 0
        out.coverage["exhaustive"] = True
        if not quick:
            cfg2 = os.path.join(scratch, "mc2.cfg")
            _mg_cfg(cfg2, 4, 5, 2, 0, False, ["Safe", "Restored", "NoLeak", "CountersSane"], MG_ALPHA_A)
            try:
                info2, o2, v2 = core.design_run(out, spec, cfg2, workers=16, timeout=1500, coverage=False,
                                                label="MemGuard NA=4 NT=5 NO=2 (time-bounded)")
                if v2:
                    out.machinery("MemGuard.tla (larger bound): design-level violation: " + o2[o2.find("Error:"):][:1500])
            except tlc.MachineryError:
                out.notes.append("larger MemGuard bound did not finish within 25 min (expected: > 10^8 states); "
                                 "no violation had been reported when it was stopped")
        # (2) known findings: witnesses re-executed on the real code
        for key in ("F-C08-2", "F-C08-3"):
            still = _kf_witness_still_fails(key)
            if still and out.open_kf(key):
                out.kf_hit(key)
            elif still:
                out.violation({"kind": "memguard-witness", "finding": key, "events": [w[0] for w in KF_WITNESS[key]]},
                              f"witness history of {key} fails although the finding is not listed as open")
        # (3) spec -> code: every behaviour of the stated length replayed with real arrays / tensors / dels
        cfg3 = os.path.join(scratch, "emit.cfg")
        maxlen = 5 if quick else 6
        behs = []
        o3 = ""
        for alpha, extra_len in ((MG_ALPHA_A, 0), (MG_ALPHA_B, 0), (MG_ALPHA_C, 0), (MG_ALPHA_C_ONLY, 1), (MG_ALPHA_E, 1)):
            _mg_cfg(cfg3, 3, 4, 2, maxlen + extra_len, True, ["Emit"], alpha)
            rc, o3x, wall = tlc.run_tlc(spec, cfg3, workers=1, timeout=3000, heap="8g")
            bx, bad = replay.parse_behaviours(o3x)
            if rc != 0 or bad or not bx:
                out.machinery(f"MemGuard emission failed rc={rc} bad={bad} n={len(bx)}: {o3x[-600:]}")
            behs += bx
            o3 = o3x
        # (3b) in-place updates inside view families (base with registered views / a registered view as target): more
        # objects per statement, so the bounded-depth run also carries the invariants (every state of depth <= maxlen)
        _mg_cfg(cfg3, 7, 9, 6, maxlen, True, ["Safe", "Restored", "NoLeak", "CountersSane", "Emit"], MG_ALPHA_D)
        rc, o3d, wall = tlc.run_tlc(spec, cfg3, workers=1, timeout=3000, heap="8g")
        bx, bad = replay.parse_behaviours(o3d)
        if rc != 0 or bad or not bx:
            j = o3d.find("Error:")
            out.machinery(f"MemGuard family emission failed rc={rc} bad={bad} n={len(bx)}: {o3d[j:j + 800] if j >= 0 else o3d[-600:]}")
        bx = [b for b in bx if any(e["ev"]["k"] == "inplacefam" for e in b)]
        behs += bx
        st3d = tlc.parse_stats(o3d)
        if st3d:
            out.coverage["states"] += st3d["distinct"]
            out.coverage["transitions"] += st3d["generated"]
        out.coverage.setdefault("tlc_runs", []).append(
            {"label": f"MemGuard in-place inside view families, all states of depth <= {maxlen} (NA=7 NT=9 NO=6), invariants on",
             "distinct_states": st3d["distinct"] if st3d else None, "behaviours_with_family_update": len(bx)})
        # (4) long random behaviours (simulation) replayed as well
        cfg4 = os.path.join(scratch, "sim.cfg")
        # (TLC's simulator enumerates every successor of every visited state: cost grows with the object budget)
        simc = (5, 7, 4, 150) if quick else (6, 8, 5, 700)
        _mg_cfg(cfg4, simc[0], simc[1], simc[2], 14, True, ["Emit"], MG_ALPHABET_SIM)
        rc4, o4, _ = tlc.run_tlc(spec, cfg4, workers=1, timeout=3000,
                                 extra=("-simulate", f"num={simc[3]}", "-depth", "15", "-seed", str(seed + 1)))
        behs4, bad4 = replay.parse_behaviours(o4)
        if bad4:
            out.machinery(f"{bad4} unparsable simulated behaviours")
        drift = 0
        nbad = 0
        allb = behs + behs4
        out.judged += len(allb)
        # replay on real arrays / tensors / dels, spread over worker processes
        import multiprocessing

        nchunk = max(1, min(64, len(allb) // 2000 + 1))
        size = (len(allb) + nchunk - 1) // nchunk
        chunks = [allb[k:k + size] for k in range(0, len(allb), size)]
        with multiprocessing.get_context("fork").Pool(min(16, len(chunks))) as pool:
            per_chunk = pool.map(memguard.compare_many, chunks)
        disagreeing = [(chunks[ci][k], r) for ci, res in enumerate(per_chunk) for k, r in res]
        for b, r in disagreeing:
            i, field, pred, obs, drift_only = r
            if drift_only:
                drift += 1
                continue
            nbad += 1
            out.violation({"kind": "memguard-replay", "rerun": ["memguard", "compare", [b]], "events": [e["ev"] for e in b], "failing_event": i, "field": field,
                           "predicted": pred, "observed": obs},
                          f"memory guard: after event {i} the writeable flags differ from the model "
                          f"({field}: predicted {pred}, observed {obs})")
        st3 = tlc.parse_stats(o3)
        if st3:
            out.coverage["states"] += st3["distinct"]
            out.coverage["transitions"] += st3["generated"]
        out.coverage["behaviours_replayed"] = len(allb)
        out.coverage["behaviours_agreeing"] = len(allb) - nbad - drift
        out.coverage["internal_table_drift"] = drift
        out.coverage["traces_validated_against_impl"] = len(allb)
        out.coverage["replay_stages"] = [
            {"spec": "MemGuard.tla", "mode": "exhaustive", "max_len": maxlen, "behaviours": len(behs)},
            {"spec": "MemGuard.tla", "mode": "simulate", "max_len": 14, "behaviours": len(behs4)}]
        if behs:
            out.add_sample({"kind": "replayed_memguard_behaviour", "events": [e["ev"] for e in behs[len(behs) // 3]]})
        if behs4:
            out.add_sample({"kind": "replayed_memguard_simulation", "events": [e["ev"] for e in behs4[0]]})
        if drift:
            out.notes.append(f"DRIFT: {drift} behaviours agree on every flag but differ in the size of an internal lock table")
    except tlc.MachineryError as e:
        out.machinery(str(e)[:3000])
    finally:
        shutil.rmtree(scratch, ignore_errors=True)
    out.assumptions += ["CPython reference counting (gc disabled during replay); arrays reachable only through references the "
                        "harness holds; in-place updates are modelled for owners and for families of a base with direct registered views "
                        "(views of views under in-place updates are covered by Ref.tla's traces only)"]
    cov = out.coverage
    cov["rule"] = ("MemGuard.tla exhaustive state graph (all orders of drops, clears, failures) at the stated bound; every "
                   "behaviour of the stated length plus seeded simulations replayed on real arrays; distinct = distinct TLC states")
    cov["evaluations"] = cov.get("behaviours_replayed", 0)
    cov["distinct_nontrivial"] = cov.get("behaviours_replayed", 0)
    cov["trusted_base"] = ["TLC 1.8 / SANY", "CommunityModules Json", "harness/memguard.py (statement spelling, flag observation)"]
    return out.finish()


# ----------------------------------------------------------------------------- C16: nnet layers (decision tables)
def check_C16(tier: str, seed: int) -> int:
    import shutil
    import tempfile
    from concurrent.futures import ThreadPoolExecutor

    from . import layers

    out = core.Outcome("C16", tier, seed, "model_checking")
    quick = tier == "quick"
    spec = os.path.join(tlc.SPEC, "tables", "Layers.tla")
    #          kind      MaxX MaxW MaxS MaxD MaxP
    bounds = [("sw1", 6, 3, 3, 3, 0), ("sw2", 4, 2, 2, 2, 0), ("conv1", 6, 3, 3, 2, 2), ("conv2", 3, 2, 2, 2, 1),
              ("pool1", 6, 3, 3, 1, 0), ("pool2", 4, 2, 2, 1, 0), ("losses", 1, 1, 1, 1, 0), ("big", 1, 1, 1, 1, 0)] if quick else \
             [("sw1", 9, 4, 4, 3, 0), ("sw2", 5, 3, 2, 2, 0), ("conv1", 8, 3, 3, 3, 2), ("conv2", 4, 2, 2, 2, 1),
              ("pool1", 9, 4, 4, 1, 0), ("pool2", 5, 3, 3, 1, 0), ("losses", 1, 1, 1, 1, 0), ("big", 1, 1, 1, 1, 0)]
    scratch = tempfile.mkdtemp(prefix="verif-lay-")
    results = {}

    def work(b):
        kind, mx, mw, ms, md, mp = b
        cfg = os.path.join(scratch, f"{kind}.cfg")
        with open(cfg, "w") as f:
            f.write(f'SPECIFICATION Spec\nCONSTANTS\n  Kind = "{kind}"\n  MaxX = {mx}\n  MaxW = {mw}\n  MaxS = {ms}\n'
                    f"  MaxD = {md}\n  MaxP = {mp}\nINVARIANT InBounds\nINVARIANT Formula\nINVARIANT AcceptsExactly\n"
                    "INVARIANT ConvAcceptsExactly\nINVARIANT Emit\nCHECK_DEADLOCK FALSE\n")
        results[kind] = tlc.run_tlc(spec, cfg, workers=1, timeout=3000, heap="4g")

    try:
        with ThreadPoolExecutor(max_workers=6) as ex:
            list(ex.map(work, bounds))
        total = agree = 0
        per_kind = {}
        out.coverage["states"] = 0
        out.coverage["transitions"] = 0
        for b in bounds:
            kind = b[0]
            rc, o, wall = results[kind]
            st = tlc.parse_stats(o)
            if rc != 0 or st is None:
                out.machinery(f"Layers.tla ({kind}) failed, rc={rc}: {o[-1200:]}")
                continue
            items, bad = replay.parse_behaviours(o)
            if bad or len(items) != st["distinct"]:
                out.machinery(f"Layers.tla ({kind}): {bad} unparsable lines, {len(items)} of {st['distinct']} configurations emitted")
            out.coverage["states"] += st["distinct"]
            out.coverage["transitions"] += st["generated"]
            out.judged += len(items)
            nb = nkf = 0
            for it in items:
                total += 1
                r = layers.run_config(it)
                if r is None:
                    agree += 1
                    continue
                what, pred, obs, variant = r
                kf = it["expected"].get("kf") or ""
                if kf and what == "accept" and out.open_kf(kf):
                    out.kf_hit(kf)
                    nkf += 1
                    continue
                nb += 1
                out.violation({"kind": "layers-table", "rerun": ["layers", "run_config", [it]], "config": it["cfg"], "variant": variant, "what": what,
                               "predicted": pred, "observed": obs},
                              f"{it['cfg']['kind']} configuration {json.dumps(it['cfg'])}: {what}: table says {pred}, "
                              f"code gives {obs} ({variant} input)")
            per_kind[kind] = {"bounds": dict(zip(("MaxX", "MaxW", "MaxS", "MaxD", "MaxP"), b[1:])),
                              "configurations": len(items), "disagree": nb, "known_finding": nkf}
            if items:
                out.add_sample({"kind": kind, "config": items[len(items) // 2]["cfg"],
                                "expected_accept": items[len(items) // 2]["expected"]["accept"]}, limit=6)
        # the remaining layers of the statement: batchnorm, softmax / logsoftmax, softmax_crossentropy (Interp.tla, exact at
        # interpretation points) and the focal losses (Kernels.tla rows of kind "focal", evaluated on a grid of probabilities)
        icells, ibad = stage_interp(out, scratch, funcs=("softmax", "logsoftmax", "softmax_crossentropy", "batchnorm", "sigmoid", "elu", "glu"))
        _, nfocal, nfbad = stage_kernels(out, kinds=("focal",))
        ngru, ngbad = stage_recurrent(out, what=("value",))
        out.coverage["interp_cells"] = icells
        out.coverage["focal_rows"] = nfocal
        out.coverage["gru_cells"] = ngru
        total += icells + nfocal + ngru
        agree += icells + nfocal + ngru - ibad - nfbad - ngbad
        out.coverage["exhaustive"] = True
        out.coverage["configurations_executed"] = total
        out.coverage["configurations_agreeing"] = agree
        out.coverage["per_kind"] = per_kind
        out.coverage["traces_validated_against_impl"] = total
    except tlc.MachineryError as e:
        out.machinery(str(e)[:3000])
    finally:
        shutil.rmtree(scratch, ignore_errors=True)
    out.assumptions += ["integer-valued fillers: float64 arithmetic is exact, values compared with ==",
                        "softmax / logsoftmax / crossentropy / batchnorm: exact at the interpretation points of Interp.tla, 1e-9 relative; "
                        "focal losses: 1e-9 relative on a grid of class probabilities (Kernels.tla)"]
    cov = out.coverage
    cov["rule"] = ("every configuration of spec/tables/Layers.tla within the stated bounds (TLC initial states, exhaustive) is "
                   "executed twice (contiguous and strided input); distinct = distinct configurations")
    cov["evaluations"] = cov.get("configurations_executed", 0)
    cov["distinct_nontrivial"] = cov.get("configurations_executed", 0)
    cov["trusted_base"] = ["TLC 1.8 / SANY", "CommunityModules Json", "harness/layers.py"]
    return out.finish()


# ----------------------------------------------------------------------------- C17 / C18: construction tables
def stage_construct_tables(out: core.Outcome, tables, cell_filter=None):
    """Every cell of the named tables of spec/tables/Construct.tla (TLC initial states) executed on the real code."""
    import shutil
    import tempfile

    from . import construct
    from .driver import reset_global_state

    spec = os.path.join(tlc.SPEC, "tables", "Construct.tla")
    scratch = tempfile.mkdtemp(prefix="verif-tab-")
    try:
        out.coverage.setdefault("states", 0)
        out.coverage.setdefault("transitions", 0)
        total = agree = 0
        per = {}
        for t in tables:
            cfg = os.path.join(scratch, f"{t}.cfg")
            with open(cfg, "w") as f:
                f.write(f'SPECIFICATION Spec\nCONSTANTS\n  Table = "{t}"\n' + "".join(
                    f"INVARIANT {i}\n" for i in ("CopyByDefault", "ReuseWhenPossible", "AstensorIdentity", "Detached",
                                                 "RejectNonReal", "RoundTrip", "Emit")) + "CHECK_DEADLOCK FALSE\n")
            rc, o, wall = tlc.run_tlc(spec, cfg, workers=1, timeout=1200)
            st = tlc.parse_stats(o)
            if rc != 0 or st is None:
                out.machinery(f"Construct.tla ({t}) failed rc={rc}: {o[-1500:]}")
                continue
            items, bad = replay.parse_behaviours(o)
            if bad or len(items) != st["distinct"]:
                out.machinery(f"Construct.tla ({t}): {bad} unparsable, {len(items)}/{st['distinct']} cells emitted")
            out.coverage["states"] += st["distinct"]
            out.coverage["transitions"] += st["generated"]
            if cell_filter is not None:
                items = [it for it in items if cell_filter(it["cell"])]
            out.judged += len(items)
            nb = 0
            for n, it in enumerate(items):
                reset_global_state()
                total += 1
                if t in ("construct", "convert"):
                    r = construct.run_construct(it)
                elif t == "saveload":
                    r = construct.run_saveload(it, scratch, n)
                else:
                    r = construct.run_creation(it)
                if r is None:
                    agree += 1
                    continue
                nb += 1
                out.violation({"kind": "construct-table", "rerun": ["construct", "rerun", [t, it]], "table": t, "cell": it["cell"], "field": r[0],
                               "predicted": r[1], "observed": r[2]},
                              f"{t} cell {json.dumps(it['cell'])}: {r[0]}: table says {r[1]!r}, code gives {r[2]!r}")
            per[t] = {"cells": len(items), "disagree": nb}
            if items:
                out.add_sample({"table": t, "cell": items[len(items) // 3]["cell"], "expected": items[len(items) // 3]["expected"]}, limit=5)
        reset_global_state()
        return total, agree, per
    finally:
        shutil.rmtree(scratch, ignore_errors=True)


def _table_check(prop: str, tier: str, seed: int, tables, runner_name: str, rule: str):
    out = core.Outcome(prop, tier, seed, "model_checking")
    try:
        total, agree, per = stage_construct_tables(out, tables)
        out.coverage.update({"exhaustive": True, "cells_executed": total, "cells_agreeing": agree, "per_table": per,
                             "traces_validated_against_impl": total})
    except tlc.MachineryError as e:
        out.machinery(str(e)[:3000])
    cov = out.coverage
    cov["rule"] = rule
    cov["evaluations"] = cov.get("cells_executed", 0)
    cov["distinct_nontrivial"] = cov.get("cells_executed", 0)
    cov["trusted_base"] = ["TLC 1.8 / SANY", "CommunityModules Json", "harness/construct.py", "NumPy (creation routines: three-way)"]
    return out.finish()


def check_C17(tier: str, seed: int) -> int:
    return _table_check("C17", tier, seed, ["construct", "convert", "creation"], "construct",
                        "every cell of the construction / conversion / creation tables of spec/tables/Construct.tla (TLC initial "
                        "states, exhaustive) executed once, plus the later-mutation probe; distinct = distinct cells")


def check_C18(tier: str, seed: int) -> int:
    return _table_check("C18", tier, seed, ["saveload"], "saveload",
                        "every cell of the save/load table (dtype x shape x constant x gradient presence x path kind), exhaustive")


# ----------------------------------------------------------------------------- C11: entry points (dispatch table)
def check_C11(tier: str, seed: int) -> int:
    from . import dispatch
    from .driver import reset_global_state

    out = core.Outcome("C11", tier, seed, "model_checking")
    spec = os.path.join(tlc.SPEC, "tables", "Dispatch.tla")
    cfg = os.path.join(tlc.SPEC, "tables", "Dispatch.cfg")
    try:
        rc, o, wall = tlc.run_tlc(spec, cfg, workers=1, timeout=1200)
        st = tlc.parse_stats(o)
        items, bad = replay.parse_behaviours(o)
        if rc != 0 or st is None or bad or len(items) != st["distinct"]:
            out.machinery(f"Dispatch.tla failed rc={rc} bad={bad}: {o[-1500:]}")
        cells = [it["cell"] for it in items]
        out.judged += len(cells)
        nb = 0
        spell = 0
        for cell in cells:
            reset_global_state()
            spell += len(cell["spellings"])
            try:
                r = dispatch.run_cell(cell)
            except Exception as e:  # noqa: BLE001
                r = ("exception", "none", f"{type(e).__name__}: {str(e)[:120]}")
            if r is None:
                continue
            nb += 1
            out.violation({"kind": "dispatch-table", "rerun": ["dispatch", "run_cell", [cell]], "cell": cell, "what": r[0], "reference": r[1], "observed": r[2]},
                          f"{cell['group']}:{cell['f']} {json.dumps({k: v for k, v in cell.items() if k not in ('spellings', 'group', 'f')})}: "
                          f"{r[0]}: reference {str(r[1])[:120]} vs {str(r[2])[:120]}")
        reset_global_state()
        unc = dispatch.registry_uncovered(cells)
        out.coverage.update({"states": st["distinct"] if st else 0, "transitions": st["generated"] if st else 0,
                             "exhaustive": True, "cells_executed": len(cells), "cells_agreeing": len(cells) - nb,
                             "spellings_evaluated": spell, "traces_validated_against_impl": len(cells),
                             "registered_names_without_a_table_row": unc})
        for c in cells[:: max(1, len(cells) // 4)][:4]:
            out.add_sample({"cell": c}, limit=4)
    except tlc.MachineryError as e:
        out.machinery(str(e)[:3000])
    cov = out.coverage
    cov["rule"] = ("every cell of spec/tables/Dispatch.tla (operation x operand kinds x argument case) executed with all its "
                   "spellings on freshly built identical operands; distinct = distinct cells")
    cov["evaluations"] = cov.get("spellings_evaluated", 0)
    cov["distinct_nontrivial"] = cov.get("cells_executed", 0)
    cov["trusted_base"] = ["TLC 1.8 / SANY", "CommunityModules Json", "harness/dispatch.py", "NumPy (non-differentiable families)"]
    out.assumptions += ["float64 operands; spellings are compared with rtol=atol=1e-12 (they run the same kernel); "
                        "ufunc.reduce/accumulate/outer/at are not implemented by MyGrad and not in the table"]
    return out.finish()


# ----------------------------------------------------------------------------- C03: agreement with NumPy (promotion table)
def check_C03(tier: str, seed: int) -> int:
    from . import promote
    from .driver import reset_global_state

    out = core.Outcome("C03", tier, seed, "model_checking")
    spec = os.path.join(tlc.SPEC, "tables", "Promote.tla")
    cfg = os.path.join(tlc.SPEC, "tables", "Promote.cfg")
    try:
        rc, o, wall = tlc.run_tlc(spec, cfg, workers=1, timeout=1200)
        st = tlc.parse_stats(o)
        items, bad = replay.parse_behaviours(o)
        if rc != 0 or st is None or bad or len(items) != st["distinct"]:
            out.machinery(f"Promote.tla failed rc={rc} bad={bad}: {o[-1500:]}")
        cells = [it["cell"] for it in items]
        out.judged += len(cells)
        nb = 0
        per = collections.Counter()
        for cell in cells:
            reset_global_state()
            per[cell["group"]] += 1
            try:
                r = promote.run_cell(cell)
            except Exception as e:  # noqa: BLE001
                r = ("harness-exception", "none", f"{type(e).__name__}: {str(e)[:120]}", True)
            if r is None:
                continue
            what, pred, obs, table_issue = r
            if table_issue:
                out.model_mismatches.append({"clause": what, "line": 0, "program": cell, "pred": str(pred), "obs": str(obs)})
                continue
            nb += 1
            out.violation({"kind": "promote-table", "rerun": ["promote", "run_cell", [cell]], "cell": cell, "what": what, "numpy": pred, "mygrad": obs},
                          f"{cell['group']}:{cell['f']} {json.dumps({k: v for k, v in cell.items() if k not in ('group', 'f')})}: "
                          f"{what}: NumPy gives {str(pred)[:100]}, MyGrad gives {str(obs)[:100]}")
        reset_global_state()
        out.coverage.update({"states": st["distinct"] if st else 0, "transitions": st["generated"] if st else 0,
                             "exhaustive": True, "cells_executed": len(cells), "cells_agreeing": len(cells) - nb,
                             "cells_per_group": dict(per), "traces_validated_against_impl": len(cells)})
        for c in cells[:: max(1, len(cells) // 4)][:4]:
            out.add_sample({"cell": c}, limit=4)
        # whole programs over integer / float32 / float16 / constant leaves: values and shapes against Ref.tla, dtype against
        # the NumPy twin after every statement
        stage_traces(out, profile="c03", n=500 if tier == "quick" else 20000, clauses=["val", "sh", "dtype", "const", "np_share"])
        out.coverage["traces_validated_against_impl"] = len(cells) + sum(t["programs"] for t in out.coverage.get("trace_stages", []))
    except tlc.MachineryError as e:
        out.machinery(str(e)[:3000])
    cov = out.coverage
    cov["rule"] = ("every cell of spec/tables/Promote.tla (function x operand dtypes / Python scalars x shape x layout x options) "
                   "evaluated with tracking on, under no_autodiff and by NumPy on the raw arrays; bit-identical values required")
    cov["evaluations"] = 3 * cov.get("cells_executed", 0)
    cov["distinct_nontrivial"] = cov.get("cells_executed", 0)
    cov["trusted_base"] = ["TLC 1.8 / SANY", "CommunityModules Json", "harness/promote.py", "NumPy as value/shape oracle"]
    out.assumptions += ["dtype lattice {bool, int8, int64, float16/32/64} and Python scalars; order=, casting=, subok= not covered"]
    return out.finish()


def stage_retry(out: core.Outcome):
    """Cells of spec/tables/Retry.tla (C09): a backward() asked again after a refused one, per operation."""
    from . import retry
    from .driver import reset_global_state

    rc, o, wall = tlc.run_tlc(os.path.join(tlc.SPEC, "tables", "Retry.tla"),
                              os.path.join(tlc.SPEC, "tables", "Retry.cfg"), workers=1, timeout=600)
    st = tlc.parse_stats(o)
    items, bad = replay.parse_behaviours(o)
    if rc != 0 or st is None or bad or len(items) != st["distinct"]:
        out.machinery(f"Retry.tla failed rc={rc} bad={bad}: {o[-1200:]}")
        return
    out.coverage["states"] = out.coverage.get("states", 0) + st["distinct"]
    out.coverage["transitions"] = out.coverage.get("transitions", 0) + st["generated"]
    nb = 0
    for it in items:
        out.judged += 1
        reset_global_state()
        try:
            r = retry.run_cell(it)
        except Exception as ex:  # noqa: BLE001
            r = ("exception", "none", f"{type(ex).__name__}: {str(ex)[:160]}")
        if r is None:
            continue
        nb += 1
        out.violation({"kind": "retry-table", "rerun": ["retry", "run_cell", [it]], "cell": it["cell"], "what": r[0],
                       "admissible": r[1], "observed": str(r[2])},
                      f"backward() asked again, cell {json.dumps(it['cell'])}: {r[0]}: admissible {r[1]}, MyGrad: {str(r[2])[:160]}")
    reset_global_state()
    out.coverage["retry_cells"] = len(items)
    out.coverage["retry_cells_disagreeing"] = nb
    out.coverage["traces_validated_against_impl"] = out.coverage.get("traces_validated_against_impl", 0) + len(items)


def stage_recurrent(out: core.Outcome, what=("value", "vjp")):
    """Cells of spec/tables/Recurrent.tla: the GRU's documented recurrence unrolled by TLC, evaluated by the harness."""
    from . import recurrent
    from .driver import reset_global_state

    rc, o, wall = tlc.run_tlc(os.path.join(tlc.SPEC, "tables", "Recurrent.tla"),
                              os.path.join(tlc.SPEC, "tables", "Recurrent.cfg"), workers=1, timeout=900)
    st = tlc.parse_stats(o)
    items, bad = replay.parse_behaviours(o)
    if rc != 0 or st is None or bad or len(items) != st["distinct"]:
        out.machinery(f"Recurrent.tla failed rc={rc} bad={bad}: {o[-1200:]}")
        return 0, 0
    out.coverage["states"] = out.coverage.get("states", 0) + st["distinct"]
    out.coverage["transitions"] = out.coverage.get("transitions", 0) + st["generated"]
    nb = 0
    for it in items:
        out.judged += 1
        reset_global_state()
        try:
            r = recurrent.run_cell(it, what=what)
        except Exception as ex:  # noqa: BLE001
            r = ("exception", "none", f"{type(ex).__name__}: {str(ex)[:160]}")
        if r is None:
            continue
        nb += 1
        out.violation({"kind": "recurrent-table", "rerun": ["recurrent", "run_cell", [it, list(what)]], "cell": it["cell"], "what": r[0],
                       "expected": str(r[1]), "observed": str(r[2])},
                      f"GRU cell {json.dumps(it['cell'])}: {r[0]}: the documented recurrence gives {str(r[1])[:120]}, MyGrad {str(r[2])[:120]}")
    return len(items), nb


def stage_kernels(out: core.Outcome, kinds=None):
    """Rows of spec/tables/Kernels.tla (optionally only some kinds) evaluated on their domain grids."""
    from . import kernels

    kspec = os.path.join(tlc.SPEC, "tables", "Kernels.tla")
    rc, o, wall = tlc.run_tlc(kspec, os.path.join(tlc.SPEC, "tables", "Kernels.cfg"), workers=1, timeout=600)
    st = tlc.parse_stats(o)
    rows, bad = replay.parse_behaviours(o)
    if rc != 0 or st is None or bad:
        out.machinery(f"Kernels.tla failed rc={rc}: {o[-1200:]}")
    krows = set()
    nk = n = 0
    for it in rows:
        row = it["row"]
        if kinds is not None and row["kind"] not in kinds:
            continue
        n += 1
        krows.add(row["f"].lower())
        out.judged += 1
        try:
            r = kernels.run_row(row)
        except Exception as ex:  # noqa: BLE001
            r = ("exception", "none", f"{type(ex).__name__}: {str(ex)[:160]}")
        if r is None:
            continue
        nk += 1
        out.violation({"kind": "kernel-table", "rerun": ["kernels", "run_row", [row]],
                       "row": {k: v for k, v in row.items() if k not in ("d", "val", "dtarget", "dother")}, "what": r[0],
                       "expected": str(r[1]), "observed": str(r[2])},
                      f"kernel {row['f']} ({row['kind']}): {r[0]}: expected {str(r[1])[:120]}, MyGrad gives {str(r[2])[:120]}")
    if st:
        out.coverage["states"] = out.coverage.get("states", 0) + st["distinct"]
        out.coverage["transitions"] = out.coverage.get("transitions", 0) + st["generated"]
    return krows, n, nk


def stage_interp(out: core.Outcome, scratch: str, seen_ops=None, groups=("exp", "sqrt"), funcs=None):
    """Cells of spec/tables/Interp.tla: exp / log / sqrt kernels at points where value or VJP is rational."""
    from . import interp

    ispec = os.path.join(tlc.SPEC, "tables", "Interp.tla")
    icells = ibad = 0
    for g in groups:
        icfg = os.path.join(scratch, f"interp-{g}.cfg")
        with open(icfg, "w") as f:
            f.write(f'SPECIFICATION Spec\nCONSTANTS\n  Group = "{g}"\nINVARIANT SoftmaxSumsToOne\nINVARIANT Emit\nCHECK_DEADLOCK FALSE\n')
        rc, o, wall = tlc.run_tlc(ispec, icfg, workers=1, timeout=900)
        sti = tlc.parse_stats(o)
        items, bad = replay.parse_behaviours(o)
        if rc != 0 or sti is None or bad or len(items) != sti["distinct"]:
            out.machinery(f"Interp.tla ({g}) failed rc={rc} bad={bad}: {o[-1200:]}")
            continue
        out.coverage["states"] = out.coverage.get("states", 0) + sti["distinct"]
        out.coverage["transitions"] = out.coverage.get("transitions", 0) + sti["generated"]
        for it in items:
            if funcs is not None and it["cell"]["f"] not in funcs:
                continue
            icells += 1
            out.judged += 1
            if seen_ops is not None:
                seen_ops.add(it["cell"]["f"])
            try:
                r = interp.run_cell(it)
            except Exception as ex:  # noqa: BLE001
                r = ("exception", "none", f"{type(ex).__name__}: {str(ex)[:160]}")
            if r is None:
                continue
            ibad += 1
            out.violation({"kind": "interp-table", "rerun": ["interp", "run_cell", [it]], "cell": it["cell"], "what": r[0], "expected": r[1], "observed": r[2]},
                          f"interpretation-point table: {it['cell']['f']} {json.dumps({k: v for k, v in it['cell'].items() if k not in ('x', 'f')})}: "
                          f"{r[0]}: exact {r[1]!r}, MyGrad {r[2]!r}")
    return icells, ibad


# ----------------------------------------------------------------------------- C02: every operation's VJP
OPTABLE_GROUPS = ["binary", "unary", "wheremask", "reduce", "matmul", "getitem", "setitem", "whereout", "move",
                  "activation", "cumulative", "sequence", "einsum", "conv", "maxpool", "loss", "inplace"]


def _uncovered_operations(seen_ops: set, kernel_rows: set):
    """Concrete Operation subclasses of MyGrad for which neither OpTable.tla nor Kernels.tla has a row."""
    import mygrad  # noqa: F401
    import mygrad.nnet  # noqa: F401
    from mygrad.operation_base import Operation

    def subclasses(c):
        for s in c.__subclasses__():
            yield s
            yield from subclasses(s)

    alias = {"Add": "add", "Subtract": "subtract", "Multiply": "multiply", "Divide": "divide", "Maximum": "maximum",
             "Minimum": "minimum", "Negative": "negative", "Positive": "positive", "Square": "square", "Abs": "abs",
             "Reciprocal": "reciprocal", "Power": "power", "Sum": "sum", "Mean": "mean", "Prod": "prod", "Max": "max", "Min": "min",
             "Variance": "var", "MatMul": "matmul", "GetItem": "getitem", "SetItem": "setitem", "Reshape": "reshape",
             "Transpose": "transpose", "Tensor_Transpose_Property": "T", "SwapAxes": "swapaxes", "MoveAxis": "moveaxis",
             "Squeeze": "squeeze", "ExpandDims": "expand_dims", "Ravel": "ravel", "Flatten": "flatten", "BroadcastTo": "broadcast_to",
             "Repeat": "repeat", "Roll": "roll", "Concatenate": "concatenate", "Stack": "stack", "Where": "where", "EinSum": "diag",
             "ReLu": "relu", "ApplyMask": "uout", "UnView": "setitem", "Absolute": "abs", "CumSum": "cumsum", "CumProd": "cumprod",
             "AddSequence": "addseq", "MultiplySequence": "mulseq", "ConvND": "conv", "MaxPoolND": "maxpool",
             "MarginRanking": "margin_ranking", "MulticlassHinge": "multiclass_hinge", "Sigmoid": "sigmoid", "Softmax": "softmax",
             "LogSoftmax": "logsoftmax", "FocalLoss": "focal_loss", "GRUnit": "gru", "SoftmaxCrossEntropy": "softmax_crossentropy", "ELU": "elu", "StdDev": "std",
             "Norm": "norm", "BatchNorm": "batchnorm", "SELU": "selu", "AtLeast1D": "atleast", "AtLeast2D": "atleast",
             "AtLeast3D": "atleast", "_AtLeastKD": "atleast"}
    out = []
    for c in sorted(set(subclasses(Operation)), key=lambda k: k.__name__):
        if getattr(c, "__abstractmethods__", None):
            continue
        n = c.__name__
        if alias.get(n) in seen_ops or n.lower() in kernel_rows or alias.get(n, "").lower() in kernel_rows:
            continue
        out.append(n)
    return out


def check_C02(tier: str, seed: int) -> int:
    import shutil
    import tempfile
    from concurrent.futures import ThreadPoolExecutor

    from . import kernels

    out = core.Outcome("C02", tier, seed, "model_checking")
    spec = os.path.join(tlc.SPEC, "OpTable.tla")
    scratch = tempfile.mkdtemp(prefix="verif-op-")
    res = {}

    def work(g):
        cfg = os.path.join(scratch, g + ".cfg")
        with open(cfg, "w") as f:
            f.write(f'SPECIFICATION Spec\nCONSTANTS\n  Group = "{g}"\nINVARIANT Emit\nCHECK_DEADLOCK FALSE\n')
        res[g] = tlc.run_tlc(spec, cfg, workers=1, timeout=3000)

    try:
        with ThreadPoolExecutor(max_workers=8) as ex:
            list(ex.map(work, OPTABLE_GROUPS))
        out.coverage["states"] = out.coverage["transitions"] = 0
        per = {}
        seen_ops = set()
        total = 0
        for g in OPTABLE_GROUPS:
            rc, o, wall = res[g]
            st = tlc.parse_stats(o)
            behs, bad = replay.parse_behaviours(o)
            if rc != 0 or st is None or bad or len(behs) != st["distinct"]:
                out.machinery(f"OpTable.tla ({g}) failed rc={rc} bad={bad}: {o[-1200:]}")
                continue
            out.coverage["states"] += st["distinct"]
            out.coverage["transitions"] += st["generated"]
            out.judged += len(behs)
            nb = 0
            for b in behs:
                total += 1
                for e in b:
                    seen_ops.add(e["stmt"].get("f", e["stmt"]["k"]))
                    seen_ops.add(e["stmt"]["k"])
                r = replay.compare(b)
                if r is None:
                    continue
                line, field, h, pred, obs = r
                if line == "out_of_model":
                    out.out_of_model += 1
                    continue
                if line == "np_model_mismatch":
                    out.model_mismatches.append({"clause": "exc", "line": field, "program": [e["stmt"] for e in b]})
                    continue
                kfs = set(b[line - 1]["proj"]["kf"]) if b[line - 1]["proj"] else set()
                hit = next((k for k in sorted(kfs) if out.open_kf(k)), None)
                if hit:
                    out.kf_hit(hit)
                    continue
                nb += 1
                out.violation({"kind": "optable", "group": g, "program": [e["stmt"] for e in b], "failing_line": line, "field": field,
                               "handle": h, "predicted": pred, "observed": obs},
                              f"operation table ({g}): statement {line}, field '{field}' of handle {h}: exact value/VJP "
                              f"{json.dumps(pred)[:160]} but MyGrad gives {json.dumps(obs)[:160]}")
            per[g] = {"cells": len(behs), "disagree": nb}
            if behs:
                out.add_sample({"group": g, "program": [e["stmt"] for e in behs[len(behs) // 2]]}, limit=8)
        # random short programs (one to three operations, seeded backward) validated line by line against Ref.tla
        stage_traces(out, profile="c02", n=400 if tier == "quick" else 20000, clauses=["val", "sh", "const", "grad", "np_share"])
        # transcendental kernels: derivative expression trees of Kernels.tla evaluated on domain grids
        krows, nrows, nk = stage_kernels(out)
        # interpretation points: exp / log / sqrt kernels where value or VJP is rational (Interp.tla)
        icells, ibad = stage_interp(out, scratch, seen_ops)
        # the GRU: documented recurrence unrolled by TLC (Recurrent.tla), value and VJP of every input
        ngru, ngbad = stage_recurrent(out)
        if ngru:
            seen_ops.add("gru")
        out.coverage["gru_cells"] = ngru
        out.coverage["gru_cells_disagreeing"] = ngbad
        out.coverage["interp_cells"] = icells
        out.coverage["interp_cells_disagreeing"] = ibad
        out.coverage.update({"exhaustive": True, "optable_cells": total, "per_group": per, "kernel_rows": nrows,
                             "kernel_rows_disagreeing": nk,
                             "traces_validated_against_impl": total + nrows + sum(
                                 t["programs"] for t in out.coverage.get("trace_stages", [])) + icells + ngru,
                             "operations_without_a_row": _uncovered_operations(seen_ops, krows)})
    except tlc.MachineryError as e:
        out.machinery(str(e)[:3000])
    finally:
        shutil.rmtree(scratch, ignore_errors=True)
    out.assumptions += [
        "exact fragment (OpTable.tla): values are small rationals, float64 arithmetic exact, VJPs compared with ==",
        "transcendental kernels (Kernels.tla): the derivative expression trees are evaluated by the harness in extended precision "
        "on a grid of each domain and compared at 1e-9 relative - numerical agreement on the grid, not a proof (DESIGN section 9)",
        "operations listed under operations_without_a_row (nnet layers / losses, einsum in general position, norm, cumulative ops ...) "
        "are not decided by this check"]
    cov = out.coverage
    cov["rule"] = ("every cell of OpTable.tla (operation x shapes x operand kinds x options x index kinds) replayed with an exact "
                   "seeded VJP; every row of Kernels.tla evaluated on its domain grid; distinct = distinct cells / rows")
    cov["evaluations"] = cov.get("traces_validated_against_impl", 0)
    cov["distinct_nontrivial"] = cov["evaluations"]
    cov["trusted_base"] = ["TLC 1.8 / SANY", "CommunityModules Json", "harness/driver.py", "harness/kernels.py (expression evaluator, longdouble)"]
    return out.finish()


def stage_layer_typing(out: core.Outcome, want=("shape", "dtype", "type", "grad", "seed")):
    """nnet layers: gradient typing (C14) / seed untouched (C12) over spec/tables/LayerTyping.tla."""
    from . import layertyping
    from .driver import reset_global_state

    rc, o, wall = tlc.run_tlc(os.path.join(tlc.SPEC, "tables", "LayerTyping.tla"),
                              os.path.join(tlc.SPEC, "tables", "LayerTyping.cfg"), workers=1, timeout=600)
    st = tlc.parse_stats(o)
    items, bad = replay.parse_behaviours(o)
    if rc != 0 or st is None or bad or not items:
        out.machinery(f"LayerTyping.tla failed rc={rc}: {o[-1000:]}")
        return
    out.judged += len(items)
    nb = 0
    for it in items:
        reset_global_state()
        try:
            rs = layertyping.run_cell(it)
        except Exception as e:  # noqa: BLE001
            rs = [("exception", "none", f"{type(e).__name__}: {str(e)[:100]}", None)]
        for what, exp, obs, key in rs:
            if not any(w in what for w in want):
                continue
            if key and key in it.get("kf", []) and out.open_kf(key):
                out.kf_hit(key)
                continue
            nb += 1
            out.violation({"kind": "layer-typing", "rerun": ["layertyping", "run_cell", [it]], "cell": it["cell"], "what": what, "expected": exp, "observed": obs},
                          f"nnet layer {it['cell']['layer']} dtypes {it['cell']['dtypes']}: {what}: expected {exp}, got {obs}")
    reset_global_state()
    cov = out.coverage
    cov["states"] = cov.get("states", 0) + st["distinct"]
    cov["transitions"] = cov.get("transitions", 0) + st["generated"]
    cov["layer_typing_cells"] = len(items)
    cov["layer_typing_disagreeing"] = nb
    cov["traces_validated_against_impl"] = cov.get("traces_validated_against_impl", 0) + len(items)

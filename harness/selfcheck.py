"""setup_cmd: SANY-parse all specifications and push one straight-line program through the whole pipeline."""
import glob, os, sys, tempfile, shutil
from . import tlc
from .driver import run_program
from .stmts import sl

def main():
    mods = sorted(glob.glob(os.path.join(tlc.SPEC, "**", "*.tla"), recursive=True))
    for m in mods:
        tlc.sany(m)
    R = lambda n, d=1: [n, d]
    prog = [
        {"k": "leaf", "h": 1, "sh": [2, 3], "v": [R(i) for i in range(6)], "const": False},
        {"k": "op", "h": 2, "f": "getitem", "a": [{"h": 1}], "ix": {"t": "basic", "items": [sl(), sl(1, None, None)]}},
        {"k": "setitem", "t": 2, "ix": {"t": "basic", "items": [{"t": "int", "i": 0}]}, "val": {"s": R(7)}},
        {"k": "op", "h": 3, "f": "sum", "a": [{"h": 1}]},
        {"k": "backward", "h": 3},
    ]
    tr = run_program(prog)
    d = tempfile.mkdtemp(prefix="verif-setup-")
    try:
        v, _, _ = tlc.validate_batch(os.path.join(tlc.SPEC, "trace", "TraceRef.tla"), os.path.join(tlc.SPEC, "trace", "TraceRef.cfg"),
                                     ["val", "sh", "grad", "base", "share", "np_share"], [tr], d, "setup")
    finally:
        shutil.rmtree(d, ignore_errors=True)
    assert v[1][0] == "ok", v
    print(f"setup ok: {len(mods)} TLA+ modules parsed, pipeline smoke test accepted")

if __name__ == "__main__":
    main()

"""Binding for spec/tables/Retry.tla (C09: a backward() asked again after a refused one)."""
from __future__ import annotations

import numpy as np

import mygrad as mg
from mygrad.errors import InvalidBackprop


def _data(op):
    rng = np.random.RandomState(11)
    if op in ("focal_loss", "softmax_crossentropy", "multiclass_hinge"):
        return [rng.uniform(0.1, 0.9, size=(3, 3))]
    if op == "matmul":
        return [rng.uniform(-1, 1, size=(2, 3)), rng.uniform(-1, 1, size=(3, 2))]
    if op == "conv_nd":
        return [rng.uniform(-1, 1, size=(1, 1, 5)), rng.uniform(-1, 1, size=(1, 1, 2))]
    if op == "max_pool":
        return [np.arange(6.0).reshape(1, 6) * 1.5 - 2.0]
    if op == "batchnorm":
        return [rng.uniform(-1, 1, size=(3, 2)), rng.uniform(0.5, 1.5, size=(2,))]
    if op in ("prod", "cumprod", "var"):
        return [rng.uniform(0.5, 1.5, size=(2, 3))]
    if op == "gru":
        T, N, C, D = 2, 1, 2, 2
        return [rng.uniform(-1, 1, size=sh) for sh in ((T, N, C), (C, D), (D, D), (D,), (C, D), (D, D), (D,), (C, D), (D, D), (D,))]
    if op in ("softmax", "logsoftmax", "selu", "norm", "std", "getitem_adv", "repeat"):
        return [rng.uniform(0.5, 1.5, size=(2, 3))]
    if op in ("arctan2", "margin_ranking"):
        return [rng.uniform(0.5, 1.5, size=(3,)), rng.uniform(0.5, 1.5, size=(3,)) + 1]
    n = 2 if op == "where" else 3
    return [rng.uniform(0.5, 1.5, size=(3,)) + k for k in range(n)]


def _build(op, ts):
    y = np.array([0, 2, 1])
    if op == "multiply_sequence":
        return mg.multiply_sequence(*ts)
    if op == "add_sequence":
        return mg.add_sequence(*ts)
    if op == "einsum":
        return mg.einsum("i,i,i->i", *ts)
    if op == "multiply_chain":
        return ts[0] * ts[1] * ts[2]
    if op == "maximum_chain":
        return mg.maximum(mg.maximum(ts[0], ts[1] * 0.5), ts[2] * 0.25)
    if op == "stack":
        return mg.stack(ts, axis=0)
    if op == "where":
        return mg.where(np.array([True, False, True]), ts[0], ts[1])
    if op == "matmul":
        return ts[0] @ ts[1]
    if op == "focal_loss":
        return mg.nnet.losses.focal_loss(ts[0], y, alpha=1.0, gamma=2.0)
    if op == "softmax_crossentropy":
        return mg.nnet.losses.softmax_crossentropy(ts[0], y)
    if op == "multiclass_hinge":
        return mg.nnet.losses.multiclass_hinge(ts[0], y)
    if op == "conv_nd":
        return mg.nnet.layers.conv_nd(ts[0], ts[1], stride=1)
    if op == "max_pool":
        return mg.nnet.layers.max_pool(ts[0], (2,), 2)
    if op == "batchnorm":
        return mg.nnet.layers.batchnorm(ts[0], gamma=ts[1], beta=None, eps=1e-3)
    if op == "prod":
        return mg.prod(ts[0], axis=1)
    if op == "cumprod":
        return mg.cumprod(ts[0], axis=1)
    if op == "var":
        return mg.var(ts[0], axis=0)
    if op == "gru":
        return mg.nnet.layers.gru(*ts)
    if op == "arctan2":
        return mg.arctan2(ts[0], ts[1])
    if op == "softmax":
        return mg.nnet.activations.softmax(ts[0])
    if op == "logsoftmax":
        return mg.nnet.activations.logsoftmax(ts[0])
    if op == "selu":
        return mg.nnet.activations.selu(ts[0] - 1.0)
    if op == "norm":
        return mg.linalg.norm(ts[0], axis=1)
    if op == "std":
        return mg.std(ts[0], axis=0)
    if op == "margin_ranking":
        return mg.nnet.losses.margin_ranking_loss(ts[0], ts[1], np.array([1, -1, 1]), 0.5)
    if op == "minimum_chain":
        return mg.minimum(mg.minimum(ts[0], ts[1] * 0.5), ts[2] * 0.25)
    if op == "getitem_adv":
        return ts[0][np.array([0, 1, 1]), np.array([2, 0, 0])]
    if op == "repeat":
        return mg.repeat(ts[0], 2, axis=1)
    raise ValueError(op)


def _attempt(P, g):
    try:
        P.backward(float(g))
    except InvalidBackprop:
        return "InvalidBackprop"
    except Exception as ex:  # noqa: BLE001
        return type(ex).__name__
    return "silent"


def run_cell(item):
    """None when the code's behaviour is admissible, else (what, admissible, observed)."""
    c, e = item["cell"], item["expected"]
    arrs = _data(c["op"])
    ts = [mg.tensor(a.copy()) for a in arrs]
    w = mg.tensor([1.0, 2.0])
    P = _build(c["op"], ts)
    Q = w * 3.0
    (w * 1.0).sum().backward()                    # another graph that shares w clears it: Q's graph is partially cleared
    L = (P.sum() + Q.sum()) if c["order"] == 1 else (Q.sum() + P.sum())
    first = _attempt(L, c["g1"])
    if first == "silent":
        first = _classify(c, ts, arrs, c["g1"])
    if first not in e["first"]:
        return ("first attempt", e["first"], first)
    if c["reuse"]:
        _ = w + 0.0
    second = _attempt(L, c["g2"])
    if second == "silent":
        second = _classify(c, ts, arrs, c["g2"])
    if second not in e["second"]:
        return ("second attempt", e["second"], second)
    return None


def _classify(c, ts, arrs, g):
    """A silent attempt: 'exact' iff every input holds the gradient of a freshly recorded copy of the computation."""
    ref = [mg.tensor(a.copy()) for a in arrs]
    R = _build(c["op"], ref)
    R.sum().backward(float(g))
    for t, r in zip(ts, ref):
        if (t.grad is None) != (r.grad is None):
            return f"silent, gradient presence differs ({t.grad} vs {r.grad})"
        if t.grad is not None and not np.allclose(t.grad, r.grad, rtol=1e-12, atol=1e-12):
            return f"silent, wrong gradient: {np.asarray(t.grad).ravel()[:4].tolist()} instead of {np.asarray(r.grad).ravel()[:4].tolist()}"
    return "exact"

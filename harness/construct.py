"""C17 / C18 binding: every cell of spec/tables/Construct.tla executed on the real constructors / converters /
save-load / creation routines.  Returns None when the code agrees with the table, else (field, predicted, observed)."""
from __future__ import annotations

import io
import os
import pathlib
import warnings

import numpy as np

import mygrad as mg
import mygrad._utils.lock_management as _mem

DT = {"f8": np.float64, "f4": np.float32, "f2": np.float16, "i8": np.int64, "b1": np.bool_, "c16": np.complex128}
NAME = {np.dtype(v): k for k, v in DT.items()}


def dtname(dt):
    return NAME.get(np.dtype(dt), str(np.dtype(dt)))


def make_input(kind: str):
    """Returns (object, keepalive)."""
    if kind == "pyfloat":
        return 3.5, None
    if kind == "pyint":
        return 3, None
    if kind == "listf":
        return [1.0, 2.0, 3.0], None
    if kind == "listi":
        return [1, 2, 3], None
    if kind == "arrf8":
        return np.array([1.0, 2.0, 3.0]), None
    if kind == "arrf4":
        return np.array([1.0, 2.0, 3.0], dtype=np.float32), None
    if kind == "arrview":
        b = np.arange(6.0)
        return b[1:4], b
    if kind == "arrT":          # transposed view: neither owner nor C-contiguous
        b = np.arange(6.0).reshape(2, 3)
        return b.T, b
    if kind == "arrF":          # Fortran-ordered owner
        return np.asfortranarray(np.arange(6.0).reshape(2, 3)), None
    if kind == "tT":
        b = mg.tensor(np.arange(6.0).reshape(2, 3))
        return b.T, b
    if kind == "arri8":
        return np.array([1, 2, 3], dtype=np.int64), None
    if kind == "arrc16":
        return np.array([1 + 2j, 2.0, 3.0]), None
    if kind == "tleaf":
        return mg.tensor([1.0, 2.0, 3.0]), None
    if kind == "tconst":
        return mg.tensor([1.0, 2.0, 3.0], constant=True), None
    if kind == "tint":
        return mg.tensor([1, 2, 3]), None
    if kind == "tgraph":
        b = mg.tensor([1.0, 2.0, 3.0])
        return b * 2.0, b
    if kind == "tgrad":
        t = mg.tensor([1.0, 2.0, 3.0])
        (t * 2.0).sum().backward()
        return t, None
    if kind == "tview":
        b = mg.tensor([0.0, 1.0, 2.0, 3.0])
        return b[1:], b
    if kind == "tf4":
        return mg.tensor([1.0, 2.0, 3.0], dtype=np.float32), None
    if kind == "bufarr":
        import array

        return array.array("d", [1.0, 2.0, 3.0]), None
    if kind == "memview":
        b = np.array([1.0, 2.0, 3.0])
        return memoryview(b), b
    if kind == "iface":
        b = np.array([1.0, 2.0, 3.0])
        return _Iface(b), b
    raise ValueError(kind)


class _Iface:
    """An object that is not an ndarray but exposes its memory through __array_interface__."""

    def __init__(self, arr):
        self._arr = arr
        self.__array_interface__ = arr.__array_interface__


def _probe(x):
    """The memory of an input as an ndarray (None when it has none to share)."""
    if isinstance(x, mg.Tensor):
        return x.data
    if isinstance(x, np.ndarray):
        return x
    if isinstance(x, (memoryview, _Iface)) or type(x).__module__ == "array":
        return np.asarray(x)      # wraps the exposed memory, no copy
    return None


def _data(x):
    return x.data if isinstance(x, mg.Tensor) else x


def _observe(res, inp, expected):
    obs = {"raises": "none", "isinput": res is inp}
    d = _data(res)
    src = _probe(inp)
    obs["shares"] = bool(isinstance(src, np.ndarray) and np.shares_memory(d, src))
    obs["dtype"] = dtname(d.dtype)
    if isinstance(res, mg.Tensor):
        obs["constant"] = bool(res.constant)
        obs["creatornone"] = res.creator is None
        obs["gradnone"] = res.grad is None
        obs["basenone"] = res.base is None
        obs["ndim"] = res.ndim
        obs["isarray"] = False
    else:
        obs["isarray"] = type(res) is np.ndarray
        obs["constant"] = False
        obs["creatornone"] = obs["gradnone"] = obs["basenone"] = True
        obs["ndim"] = d.ndim
    return obs


def _later_mutation_sees(res, inp) -> bool | None:
    """Later changes to the input are seen by the result iff they share memory (C17, first sentence)."""
    src = _probe(inp)
    if not isinstance(src, np.ndarray) or src.size == 0 or not src.flags.writeable:
        return None
    before = np.array(_data(res), copy=True)
    old = src.flat[0]
    try:
        src.flat[0] = old + 41
        return not np.array_equal(before, _data(res))
    finally:
        src.flat[0] = old


def run_construct(item):
    c, e = item["cell"], item["expected"]
    inp, keep = make_input(c["kind"])
    kw = {}
    if c.get("dtype", "none") != "none":
        kw["dtype"] = DT[c["dtype"]]
    if c.get("constant", "none") != "none":
        kw["constant"] = c["constant"] == "true"
    entry = c["entry"]
    with warnings.catch_warnings():
        warnings.simplefilter("ignore")
        try:
            if entry == "tensor":
                res = mg.tensor(inp, copy=c["copy"], ndmin=c["ndmin"], **kw)
            elif entry == "Tensor":
                res = mg.Tensor(inp, copy=c["copy"], ndmin=c["ndmin"], **kw)
            elif entry == "astensor":
                res = mg.astensor(inp, **kw)
            elif entry == "asarray":
                res = mg.asarray(inp, **({"dtype": kw["dtype"]} if "dtype" in kw else {}))
            elif entry == "copy":
                res = inp.copy(**({"constant": kw["constant"]} if "constant" in kw else {}))
            elif entry == "astype":
                res = inp.astype(kw["dtype"], copy=c["copy"], **({"constant": kw["constant"]} if "constant" in kw else {}))
            else:  # pragma: no cover
                raise ValueError(entry)
        except (TypeError, ValueError) as ex:
            got = type(ex).__name__
            if e["raises"] != got:
                return ("raises", e["raises"], got)
            return None
    if e["raises"] != "none":
        return ("raises", e["raises"], "none")
    obs = _observe(res, inp, e)
    for f, v in e.items():
        if f in obs and obs[f] != v:
            return (f, v, obs[f])
    if isinstance(res, mg.Tensor) or isinstance(res, np.ndarray):
        seen = _later_mutation_sees(res, inp)
        if seen is not None and seen != e["shares"]:
            return ("later-mutation-visible", e["shares"], seen)
    del keep
    return None


# ----------------------------------------------------------------------------- save / load
def _state_of(t):
    g = t.grad
    return (t.data.tobytes(), str(t.dtype), t.shape, None if g is None else (g.tobytes(), str(g.dtype), g.shape),
            id(t.creator), len(t._ops), id(t.base), bool(t.data.flags.writeable), bool(t.constant),
            len(_mem._array_tracker), sum(_mem._array_counter.values()))


def run_saveload(item, scratch: str, n: int):
    c, e = item["cell"], item["expected"]
    dt = DT[c["dt"]]
    shape = tuple(c["shape"])
    size = int(np.prod(shape)) if shape else 1
    vals = (np.arange(size) % 3 + 1).reshape(shape).astype(dt)
    kw = {} if c["dt"] in ("i8", "b1") else {"constant": c["const"]}
    base = mg.tensor(vals, **kw)
    t = base
    if c["grad"] in ("viewgrad", "viewnograd"):
        t = base[1:]
    if c["grad"] in ("own", "viewgrad"):
        (base * 2).sum().backward()
    before = _state_of(t)
    via = c["via"]
    nm = c.get("name", "npz")
    stem = {"npz": f"t{n}.npz", "bare": f"t{n}", "dotted": f"t{n}.v1", "two": f"t{n}.v1"}[nm]
    path = os.path.join(scratch, stem)
    where = path if path.endswith(".npz") else path + ".npz"      # numpy.savez's convention
    if via == "str":
        mg.save(path, t)
        if nm == "two":       # a second archive whose name differs only after the dot must not replace the first
            mg.save(os.path.join(scratch, f"t{n}.v2"), mg.tensor(vals * 0 + 7))
        if not os.path.exists(where):
            return ("archive location", os.path.basename(where), sorted(os.listdir(scratch))[:6])
        back = mg.load(where)
    elif via == "path":
        mg.save(pathlib.Path(path), t)
        if nm == "two":
            mg.save(pathlib.Path(os.path.join(scratch, f"t{n}.v2")), mg.tensor(vals * 0 + 7))
        if not os.path.exists(where):
            return ("archive location", os.path.basename(where), sorted(os.listdir(scratch))[:6])
        back = mg.load(pathlib.Path(where))
    else:
        buf = io.BytesIO()
        mg.save(buf, t)
        buf.seek(0)
        back = mg.load(buf)
    after = _state_of(t)
    if before != after:
        return ("save-alters-source", "unchanged", "changed")
    if dtname(back.dtype) != e["dtype"]:
        return ("dtype", e["dtype"], dtname(back.dtype))
    if list(back.shape) != list(e["shape"]):
        return ("shape", list(e["shape"]), list(back.shape))
    if not np.array_equal(back.data, t.data):
        return ("data", t.data.tolist(), back.data.tolist())
    if (back.grad is None) != e["gradnone"]:
        return ("gradnone", e["gradnone"], back.grad is None)
    if (t.grad is None) != e["gradnone"]:
        return ("source-gradnone (harness)", e["gradnone"], t.grad is None)
    if back.grad is not None:
        g = back.grad
        if type(g) is not np.ndarray:
            return ("grad-type", "ndarray", type(g).__name__)
        if dtname(g.dtype) != e["graddtype"]:
            return ("graddtype", e["graddtype"], dtname(g.dtype))
        if list(g.shape) != list(e["gradshape"]):
            return ("gradshape", list(e["gradshape"]), list(g.shape))
        if not np.array_equal(g, t.grad):
            return ("grad", t.grad.tolist(), g.tolist())
    return None


# ----------------------------------------------------------------------------- creation routines
def _create_args(fn, shape, variant):
    sh = tuple(shape)
    proto = (np.arange(int(np.prod(sh)) if sh else 1) % 4).reshape(sh).astype(np.float64 if variant == 1 else np.int64)
    n = (sh[0] if sh else 1) + 2
    if fn in ("zeros", "ones", "empty"):
        return (sh,), {}
    if fn == "full":
        return (sh, 2.5 if variant == 1 else 3), {}
    if fn in ("zeros_like", "ones_like", "empty_like"):
        return (proto,), {}
    if fn == "full_like":
        return (proto, 2 if variant == 1 else 1.5), {}
    if fn == "arange":
        return ((n,) if variant == 1 else (1, n + 3, 2)), {}
    if fn == "linspace":
        return (0.0, 2.0), ({"num": n} if variant == 1 else {"num": n, "endpoint": False})
    if fn == "logspace":
        return (0.0, 2.0), ({"num": n} if variant == 1 else {"num": n, "base": 2.0})
    if fn == "geomspace":
        return ((1.0, 8.0), {"num": n}) if variant == 1 else (([1.0, 2.0], [100.0, 200.0]), {"num": 3, "axis": -1})
    if fn == "eye":
        return ((n,), {}) if variant == 1 else ((n, n + 1), {"k": 1})
    if fn == "identity":
        return (n,), {}
    raise ValueError(fn)


def run_creation(item):
    c, e = item["cell"], item["expected"]
    fn = c["fn"]
    args, kw = _create_args(fn, c["shape"], c["variant"])
    if c["dtype"] != "none":
        kw = dict(kw, dtype=DT[c["dtype"]])
    with warnings.catch_warnings():
        warnings.simplefilter("ignore")
        try:
            ref = getattr(np, fn)(*args, **kw)
        except Exception:
            return None  # NumPy itself rejects this argument combination: outside the table
        try:
            got = getattr(mg, fn)(*args, **kw)
        except Exception as ex:  # noqa: BLE001
            return ("raises", "none", f"{type(ex).__name__}: {ex}")
    if not isinstance(got, mg.Tensor):
        return ("type", "Tensor", type(got).__name__)
    want_dt = np.dtype(np.float32) if e["f4default"] else ref.dtype
    if got.dtype != want_dt:
        return ("dtype", str(want_dt), str(got.dtype))
    if got.shape != ref.shape:
        return ("shape", list(ref.shape), list(got.shape))
    if fn not in ("empty", "empty_like") and not np.array_equal(got.data, ref.astype(want_dt)):
        return ("values", ref.astype(want_dt).tolist(), got.data.tolist())
    return None


def rerun(table, item):
    """Re-executes one cell of the named table (used by ./check <ID> --replay)."""
    import shutil
    import tempfile

    if table in ("construct", "convert"):
        return run_construct(item)
    if table == "saveload":
        d = tempfile.mkdtemp(prefix="verif-sl-")
        try:
            return run_saveload(item, d, 0)
        finally:
            shutil.rmtree(d, ignore_errors=True)
    return run_creation(item)

"""Thin wrapper around TLC: SANY parsing, exhaustive / simulation runs, batch trace validation."""
from __future__ import annotations

import json
import os
import re
import shutil
import subprocess
import tempfile
import time
from concurrent.futures import ThreadPoolExecutor

VERIF = os.path.dirname(os.path.dirname(os.path.abspath(__file__)))
SPEC = os.path.join(VERIF, "spec")
JAR = "/opt/veriftools/tla/tla2tools.jar:/opt/veriftools/tla/CommunityModules-deps.jar"
LIBPATH = ":".join(os.path.join(SPEC, d) for d in ("lib", "", "tables", "trace"))


class MachineryError(Exception):
    pass


def _java(extra_props=(), heap="3g"):
    return ["java", f"-Xmx{heap}", "-XX:+UseParallelGC", f"-DTLA-Library={LIBPATH}", *extra_props, "-cp", JAR]


def sany(path: str) -> None:
    tmp = tempfile.mkdtemp(prefix="sany-")
    try:
        r = subprocess.run(_java(extra_props=(f"-Djava.io.tmpdir={tmp}",), heap="512m") + ["tla2sany.SANY", path],
                           capture_output=True, text=True)
    finally:
        shutil.rmtree(tmp, ignore_errors=True)
    if r.returncode != 0 or "*** Errors" in r.stdout or "Fatal errors" in r.stdout:
        raise MachineryError(f"SANY failed on {path}:\n{r.stdout[-3000:]}\n{r.stderr[-2000:]}")


def run_tlc(spec: str, cfg: str, *, workers=1, env=None, extra=(), timeout=3600, heap="3g", cwd=None):
    """Runs TLC; returns (returncode, stdout, wall seconds).  Scratch metadir is removed afterwards."""
    meta = tempfile.mkdtemp(prefix="tlcmeta-")
    e = dict(os.environ)
    e.pop("JAVA_TOOL_OPTIONS", None)
    if env:
        e.update(env)
    # (TLC unpacks its standard modules into java.io.tmpdir on every start and leaves them there: point it at the
    #  scratch directory that is removed below)
    cmd = _java(extra_props=(f"-Djava.io.tmpdir={meta}",), heap=heap) + [
        "tlc2.TLC", "-workers", str(workers), "-metadir", os.path.join(meta, "states"), "-noGenerateSpecTE",
        "-config", cfg, *extra, spec,
    ]
    t0 = time.time()
    try:
        r = subprocess.run(cmd, capture_output=True, text=True, env=e, timeout=timeout, cwd=cwd or os.path.dirname(spec))
        return r.returncode, r.stdout + r.stderr, time.time() - t0
    except subprocess.TimeoutExpired as ex:
        raise MachineryError(f"TLC timed out after {timeout}s: {spec}") from ex
    finally:
        shutil.rmtree(meta, ignore_errors=True)


def run_tlc_to_file(spec: str, cfg: str, path: str, *, workers=1, extra=(), timeout=3600, heap="3g"):
    """Like run_tlc, but TLC's output goes to `path` (behaviour dumps can be gigabytes).  Returns (rc, wall)."""
    meta = tempfile.mkdtemp(prefix="tlcmeta-")
    e = dict(os.environ)
    e.pop("JAVA_TOOL_OPTIONS", None)
    cmd = _java(extra_props=(f"-Djava.io.tmpdir={meta}",), heap=heap) + [
        "tlc2.TLC", "-workers", str(workers), "-metadir", os.path.join(meta, "states"), "-noGenerateSpecTE",
        "-config", cfg, *extra, spec]
    t0 = time.time()
    try:
        with open(path, "w") as f:
            r = subprocess.run(cmd, stdout=f, stderr=subprocess.STDOUT, text=True, env=e, timeout=timeout,
                               cwd=os.path.dirname(spec))
        return r.returncode, time.time() - t0
    except subprocess.TimeoutExpired as ex:
        raise MachineryError(f"TLC timed out after {timeout}s: {spec}") from ex
    finally:
        shutil.rmtree(meta, ignore_errors=True)


DUPLICATE_VERDICT_LINES: list = []      # (batch tag, trace id, verdict) of VERDICT lines that TLC printed twice
_VERDICT = re.compile(r'<<"VERDICT",\s*(\d+),\s*"([^"]*)",\s*(\d+)>>')
_STATS = re.compile(r"(\d+) states generated, (\d+) distinct states found")


def parse_stats(out: str):
    m = None
    for m in _STATS.finditer(out):
        pass
    if m is None:
        return None
    return {"generated": int(m.group(1)), "distinct": int(m.group(2))}


SPEC_ERRORS: list[dict] = []     # traces on which TLC itself failed (filled by validate_batch)


def validate_batch(spec: str, cfg: str, clauses: list[str], traces: list[list[dict]], scratch: str, tag: str,
                   timeout=1800, _depth=0):
    """Validates one batch of traces in one JVM.  Returns dict tid(1-based) -> (clause, line) and raw output."""
    if not traces:
        return {}, "", {"generated": 0, "distinct": 0}
    path = os.path.join(scratch, f"batch-{tag}.json")
    with open(path, "w") as f:
        json.dump({"clauses": clauses, "traces": traces}, f)
    rc, out, wall = run_tlc(spec, cfg, workers=1, env={"TRACE_FILE": path}, timeout=timeout)
    verdicts = {}
    for m in _VERDICT.finditer(out):
        tid = int(m.group(1))
        v = (m.group(2), int(m.group(3)))
        if tid in verdicts and verdicts[tid] != v:
            raise MachineryError(f"two different verdicts for trace {tid}: {verdicts[tid]} and {v}")
        # (the same line printed twice - TLC may evaluate a PrintT conjunct more than once - is one verdict)
        if tid in verdicts:
            DUPLICATE_VERDICT_LINES.append((tag, tid, v))
        verdicts[tid] = v
    if len(verdicts) != len(traces) or rc != 0:
        if len(traces) > 1 and _depth < 12:
            # an evaluation error of the specification on ONE trace aborts the JVM: isolate it by bisection so that the
            # other traces are still judged; the culprit is reported as `spec_error` (never as a verdict about the code)
            mid = len(traces) // 2
            v1, o1, s1 = validate_batch(spec, cfg, clauses, traces[:mid], scratch, tag + "a", timeout, _depth + 1)
            v2, o2, s2 = validate_batch(spec, cfg, clauses, traces[mid:], scratch, tag + "b", timeout, _depth + 1)
            v = dict(v1)
            v.update({k + mid: x for k, x in v2.items()})
            # trace ids in the second half's output lines (VERDICT / TAINT / EXPECTED-*) are renumbered
            o2 = re.sub(r'<<"([A-Z-]+)", (\d+),', lambda m: f'<<"{m.group(1)}", {int(m.group(2)) + mid},', o2)
            return v, o1 + o2, {"generated": s1["generated"] + s2["generated"], "distinct": s1["distinct"] + s2["distinct"]}
        i = out.find("Error:")
        head = out[i:i + 1500] if i >= 0 else out[-1500:]
        SPEC_ERRORS.append({"trace": traces[0], "tlc": head})
        return {1: ("spec_error", 0)}, out, {"generated": 0, "distinct": 0}
    return verdicts, out, parse_stats(out) or {"generated": 0, "distinct": 0}


def validate_parallel(spec, cfg, clauses, traces, scratch, jobs=16, chunk=150, timeout=1800):
    """Splits `traces` into chunks validated by parallel JVMs.  Returns list of (clause, line) per trace + stats."""
    chunks = [traces[i:i + chunk] for i in range(0, len(traces), chunk)]
    results = [None] * len(chunks)

    def work(i):
        results[i] = validate_batch(spec, cfg, clauses, chunks[i], scratch, str(i), timeout=timeout)

    with ThreadPoolExecutor(max_workers=jobs) as ex:
        list(ex.map(work, range(len(chunks))))
    verdicts, outs = [], []
    gen = dist = 0
    for i, (v, out, stats) in enumerate(results):
        for k in range(len(chunks[i])):
            verdicts.append(v[k + 1])
        outs.append(out)
        gen += stats["generated"]
        dist += stats["distinct"]
    return verdicts, outs, {"generated": gen, "distinct": dist}

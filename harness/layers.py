"""C16 binding: every configuration enumerated by spec/tables/Layers.tla is executed on the real functions."""
from __future__ import annotations

import numpy as np

import mygrad as mg
from mygrad.nnet.layers import conv_nd, max_pool
from mygrad.nnet.layers.utils import sliding_window_view

try:  # NumPy 2
    from numpy.lib.array_utils import byte_bounds
except ImportError:  # pragma: no cover
    from numpy import byte_bounds


def fill_x(n):
    return (((np.arange(n, dtype=np.int64) * 7) % 11) - 5).astype(np.float64)


def fill_k(n):
    return np.array([((i * 3) % 5) - 2 for i in range(n)], dtype=np.float64)


def noncontiguous(a: np.ndarray) -> np.ndarray:
    """The same logical array, laid out neither C- nor F-contiguously (every second element of a wider buffer)."""
    if a.ndim >= 2:
        # every second ROW of a taller buffer: the last axis stays dense, the others do not follow from the shape
        big = np.zeros((2 * a.shape[0],) + a.shape[1:], dtype=a.dtype) - 99.0
        big[::2] = a
        v = big[::2]
    else:
        big = np.zeros(a.shape[:-1] + (2 * a.shape[-1],), dtype=a.dtype) - 99.0
        big[..., ::2] = a
        v = big[..., ::2]
    assert not v.flags["C_CONTIGUOUS"] or v.size <= 1 or v.shape[0] == 1
    return v


def run_loss(c, e):
    from fractions import Fraction

    from mygrad.nnet.losses import margin_ranking_loss, multiclass_hinge, negative_log_likelihood

    want = Fraction(e["num"], e["den"])
    if c["kind"] == "hinge":
        n, C = c["n"], c["c"]
        x = fill_x(n * C).reshape(n, C)
        y = np.array([(i * c["variant"]) % C for i in range(n)])
        outs = {"keyword": multiclass_hinge(mg.tensor(x), y, hinge=c["h2"] / 2.0),
                "positional": multiclass_hinge(mg.tensor(x), y, c["h2"] / 2.0)}
    elif c["kind"] == "nll":
        n, C = c["n"], c["c"]
        x = fill_x(n * C).reshape(n, C)
        y = np.array([(i * c["variant"]) % C for i in range(n)])
        if c["weighted"]:
            w = fill_k(C) + 3.0
            outs = {"keyword": negative_log_likelihood(mg.tensor(x), y, weights=w),
                    "tensor weights, tensor labels": negative_log_likelihood(mg.tensor(x), mg.tensor(y), weights=mg.tensor(w))}
        else:
            outs = {"default": negative_log_likelihood(mg.tensor(x), y), "none": negative_log_likelihood(x, y, weights=None)}
    else:
        n = c["n"]
        x1, x2 = fill_x(n), fill_k(n)
        y = np.array([1 if (i + 1 + c["variant"]) % 2 == 0 else -1 for i in range(n)])
        outs = {"keyword": margin_ranking_loss(mg.tensor(x1), mg.tensor(x2), y, margin=c["m2"] / 2.0)}
    for sp, out in outs.items():
        got = float(out.data)
        if abs(got - float(want)) > 1e-12:
            return ("value", float(want), got, sp)
    return None


def run_config(item: dict):
    """Returns None if the implementation agrees with the table, else (what, predicted, observed)."""
    c, e = item["cfg"], item["expected"]
    kind = c["kind"]
    if kind in ("hinge", "margin", "nll"):
        return run_loss(c, e)
    for variant in ("contiguous", "strided"):
        try:
            if kind == "sw":
                shape = ([c["lead"]] if c["lead"] else []) + list(c["x"])
                arr = np.arange(int(np.prod(shape)), dtype=np.float64).reshape(shape)
                inp = arr if variant == "contiguous" else noncontiguous(arr)
                out = sliding_window_view(inp, window_shape=tuple(c["w"]), step=tuple(c["s"]),
                                          dilation=tuple(c["d"]) if c["dgiven"] else None)
            elif kind == "conv":
                xs = [c["n"], c["c"]] + list(c["x"])
                ks = [c["f"], c["c"]] + list(c["w"])
                x = fill_x(int(np.prod(xs))).reshape(xs)
                k = fill_k(int(np.prod(ks))).reshape(ks)
                inp = x if variant == "contiguous" else noncontiguous(x)
                out = conv_nd(inp, k, stride=tuple(c["s"]), padding=tuple(c["p"]), dilation=tuple(c["d"])).data
            else:
                xs = [c["n"]] + list(c["x"])
                x = fill_x(int(np.prod(xs))).reshape(xs)
                inp = x if variant == "contiguous" else noncontiguous(x)
                out = max_pool(inp, pool=tuple(c["w"]), stride=tuple(c["s"])).data
        except (ValueError, TypeError, AssertionError) as ex:
            if e["accept"]:
                return ("accept", True, f"rejected: {type(ex).__name__}", variant)
            continue
        if not e["accept"]:
            return ("accept", False, f"accepted, shape {out.shape}", variant)
        if list(out.shape) != list(e["shape"]):
            return ("shape", list(e["shape"]), list(out.shape), variant)
        if kind == "sw":
            if out.flags.writeable:
                return ("read-only", True, False, variant)
            if [int(v) for v in out.ravel()] != list(e["gather"]):
                return ("formula", list(e["gather"])[:12], [int(v) for v in out.ravel()][:12], variant)
            if variant == "contiguous":
                lo, hi = byte_bounds(arr)
                olo, ohi = byte_bounds(out) if out.size else (lo, lo)
                if out.size and not (lo <= olo and ohi <= hi):
                    return ("memory-bounds", (lo, hi), (olo, ohi), variant)
        elif "vals" in e:
            if [float(v) for v in out.ravel()] != [float(v) for v in e["vals"]]:
                return ("values", list(e["vals"])[:12], [float(v) for v in out.ravel()][:12], variant)
    return None

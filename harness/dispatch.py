"""C11 binding: every cell of spec/tables/Dispatch.tla is executed: all spellings of one operation are evaluated on
identical (freshly built) operands and must agree in value, dtype, shape, constant flag and gradients; the result
kind (Tensor / plain ndarray / ValueError) must be the one the table predicts."""
from __future__ import annotations

import operator
import warnings

import numpy as np

import mygrad as mg

VALS = {
    "pos": [1.5, 2.0, 0.5, 3.0, 1.25, 2.5, 0.75, 4.0],
    "unit": [0.3, -0.5, 0.7, 0.1, -0.2, 0.6, -0.7, 0.4],
    "gt1": [1.5, 2.0, 3.0, 1.25, 2.5, 4.0, 1.75, 3.5],
    "any": [-1.5, 0.5, 2.0, -0.75, 1.25, -2.5, 3.0, 0.25],
}
OPS = {"+": operator.add, "-": operator.sub, "*": operator.mul, "/": operator.truediv, "**": operator.pow,
       "@": operator.matmul, "//": operator.floordiv}
IOPS = {"+": operator.iadd, "-": operator.isub, "*": operator.imul, "/": operator.itruediv, "**": operator.ipow}
OPNAME = {"add": "+", "subtract": "-", "multiply": "*", "divide": "/", "power": "**", "matmul": "@", "floor_divide": "//"}


def arr(shape, domain, offset=0, const_val=None):
    n = int(np.prod(shape)) if shape else 1
    if const_val is not None:
        return np.full(shape, const_val, dtype=np.float64)
    v = VALS[domain]
    return np.array([v[(i + offset) % len(v)] for i in range(n)], dtype=np.float64).reshape(shape)


def operand(kind, a):
    if kind == "v":
        return mg.tensor(a.copy())
    if kind == "c":
        return mg.tensor(a.copy(), constant=True)
    if kind == "a":
        return a.copy()
    if kind == "s":
        return float(a.ravel()[0])
    raise ValueError(kind)


def raw(x):
    return x.data if isinstance(x, mg.Tensor) else x


def summarize(res, operands, seed=True):
    """(kind, value bytes, dtype, shape, constant, grads of the non-constant tensor operands)"""
    if not isinstance(res, mg.Tensor):
        a = np.asarray(res)
        return {"kind": "ndarray" if isinstance(res, (np.ndarray, np.generic, bool, tuple)) else type(res).__name__,
                "val": a.tolist(), "dtype": str(a.dtype), "shape": list(a.shape), "constant": None, "grads": None}
    out = {"kind": "tensor", "val": res.data.tolist(), "dtype": str(res.dtype), "shape": list(res.shape),
           "constant": bool(res.constant), "grads": None}
    if seed and not res.constant:
        g = (np.arange(res.size, dtype=np.float64).reshape(res.shape) % 3) + 1.0
        res.backward(g)
        out["grads"] = [None if not isinstance(o, mg.Tensor) or o.grad is None else np.asarray(o.grad).tolist() for o in operands]
    return out


def close(a, b):
    if a is None or b is None:
        return a is b
    try:
        return np.allclose(np.asarray(a, dtype=float), np.asarray(b, dtype=float), rtol=1e-12, atol=1e-12, equal_nan=True) and \
            np.shape(a) == np.shape(b)
    except (ValueError, TypeError):
        return False


def compare(ref, got, fields):
    for f in fields:
        if f in ("val", "grads"):
            if f == "grads":
                ra, ga = ref["grads"], got["grads"]
                if (ra is None) != (ga is None):
                    return (f, ra, ga)
                if ra is not None:
                    for x, y in zip(ra, ga):
                        if not close(x, y):
                            return (f, ra, ga)
            elif not close(ref[f], got[f]):
                return (f, ref[f], got[f])
        elif ref[f] != got[f]:
            return (f, ref[f], got[f])
    return None


# ----------------------------------------------------------------------------- cell runners
def _bin_operands(cell):
    f = cell["f"]
    s1, s2 = [tuple(s) for s in cell["shapes"]]
    dom = cell.get("domain", "any")
    a1 = arr(s1, dom)
    e = cell.get("exponent", "generic")
    if f == "power":
        a2 = arr(s2, "pos", const_val={"one": 1.0, "two": 2.0}.get(e)) if e != "generic" else np.round(arr(s2, "pos", 3)) + 1.0
    elif f == "divide":
        a2 = arr(s2, "pos", 3)
    else:
        a2 = arr(s2, dom, 3)
    return a1, a2


def run_binary(cell):
    f = cell["f"]
    k1, k2 = cell["operands"]
    a1, a2 = _bin_operands(cell)
    if cell.get("dt", "f8") == "f4":
        a1, a2 = a1.astype(np.float32), a2.astype(np.float32)
    if k1 == "s":
        a1 = a1.reshape(-1)[:1].reshape(())
    if k2 == "s":
        a2 = a2.reshape(-1)[:1].reshape(())
    try:
        rshape = np.broadcast_shapes(a1.shape, a2.shape) if f != "matmul" else np.matmul(a1, a2).shape
    except ValueError:
        return None
    mgf, npf = getattr(mg, f), getattr(np, f)
    odt = np.float32 if cell.get("dt", "f8") == "f4" else np.float64      # dtype of out= targets: the operands' own

    def fresh():
        return operand(k1, a1), operand(k2, a2)

    results = {}
    for sp in cell["spellings"]:
        x, y = fresh()
        ops = [x, y]
        with warnings.catch_warnings():
            warnings.simplefilter("ignore")
            try:
                if sp == "mg":
                    r = mgf(x, y)
                elif sp == "np":
                    r = npf(x, y)
                elif sp == "commuted":
                    r = mgf(y, x)
                elif sp in ("op", "rop"):
                    r = OPS[OPNAME[f]](x, y)
                elif sp == "iop":
                    if tuple(rshape) != tuple(a1.shape) or not isinstance(x, mg.Tensor):
                        continue
                    t = x
                    r = IOPS[OPNAME[f]](t, y)
                    if r is not t:
                        return ("iop-identity", "same object", "new object")
                elif sp in ("mg_out", "np_out"):
                    o = mg.tensor(np.zeros(rshape, dtype=odt))
                    r = (mgf if sp == "mg_out" else npf)(x, y, out=o)
                    if r is not o:
                        return (sp + "-identity", "out tensor returned", type(r).__name__)
                elif sp == "mg_where_out":
                    mask = (np.arange(int(np.prod(rshape)) if rshape else 1).reshape(rshape) % 2).astype(bool)
                    o = mg.tensor(np.full(rshape, 9.0, dtype=odt))
                    r = mgf(x, y, where=mask, out=o)
                    expect = npf(raw(x) if not isinstance(x, float) else x, raw(y) if not isinstance(y, float) else y,
                                 where=mask, out=np.full(rshape, 9.0, dtype=odt))
                    if not close(r.data.tolist(), expect.tolist()):
                        return ("where+out values", expect.tolist(), r.data.tolist())
                    continue
                else:  # pragma: no cover
                    raise ValueError(sp)
            except Exception as ex:  # noqa: BLE001
                results[sp] = {"kind": type(ex).__name__, "msg": str(ex)[:80]}
                continue
        results[sp] = summarize(r, ops)
    ref = results.get("mg")
    if ref is None or ref["kind"] != cell["kind"]:
        return ("kind(mg)", cell["kind"], None if ref is None else ref["kind"])
    for sp, got in results.items():
        if sp == "mg":
            continue
        if got["kind"] != ref["kind"]:
            return (f"kind({sp})", ref["kind"], got.get("kind"))
        fields = ["val", "dtype", "shape", "grads"] + (["constant"] if sp in ("np", "op", "rop") else [])
        if sp in ("iop", "commuted") or (sp in ("mg_out", "np_out") and ref["grads"] is None):
            fields = ["val", "dtype", "shape"]
        r = compare(ref, got, fields)
        if r is not None:
            return (f"{sp}:{r[0]}", r[1], r[2])
    return None


def run_unary(cell):
    f = cell["f"]
    a = arr(tuple(cell["shape"]), cell["domain"])
    mgf, npf = getattr(mg, f), getattr(np, f)
    results = {}
    for sp in cell["spellings"]:
        x = operand(cell["operand"], a)
        with warnings.catch_warnings():
            warnings.simplefilter("ignore")
            if sp == "mg":
                r = mgf(x)
            elif sp == "np":
                r = npf(x)
            elif sp == "op":
                r = {"negative": operator.neg, "positive": operator.pos, "absolute": abs}[f](x)
            else:
                o = mg.tensor(np.zeros(a.shape))
                r = (mgf if sp == "mg_out" else npf)(x, out=o)
                if r is not o:
                    return (sp + "-identity", "out tensor returned", type(r).__name__)
        results[sp] = summarize(r, [x])
    ref = results["mg"]
    if ref["kind"] != "tensor":
        return ("kind(mg)", "tensor", ref["kind"])
    for sp, got in results.items():
        fields = ["val", "dtype", "shape", "grads"] + (["constant"] if sp in ("np", "op") else [])
        if sp in ("mg_out", "np_out") and ref["grads"] is None:
            fields = ["val", "dtype", "shape"]
        r = compare(ref, got, fields)
        if r is not None:
            return (f"{sp}:{r[0]}", r[1], r[2])
    return None


RED_KW = {"none": {}, "axis0": {"axis": 0}, "axism1": {"axis": -1}, "keepdims": {"keepdims": True, "axis": 1},
          "axes01": {"axis": (0, 1)}, "ddof1": {"ddof": 1, "axis": 0}}


def run_reduce(cell):
    f = cell["f"]
    a = arr(tuple(cell["shape"]), "any")
    # distinct values so that max/min have no ties
    a = a + np.arange(a.size).reshape(a.shape) * 0.01
    kw = RED_KW[cell["kw"]]
    results = {}
    for sp in cell["spellings"]:
        x = operand(cell["operand"], a)
        if sp == "mg":
            r = getattr(mg, f)(x, **kw)
        elif sp == "np":
            r = getattr(np, f)(x, **kw)
        elif sp == "np_alias":
            r = {"max": np.amax, "min": np.amin}[f](x, **kw)
        else:
            r = getattr(x, f)(**kw)
        results[sp] = summarize(r, [x])
    ref = results["mg"]
    if ref["kind"] != "tensor":
        return ("kind(mg)", "tensor", ref["kind"])
    for sp, got in results.items():
        r = compare(ref, got, ["kind", "val", "dtype", "shape", "constant", "grads"])
        if r is not None:
            return (f"{sp}:{r[0]}", r[1], r[2])
    return None


def _shape_calls(f, arg):
    """Returns (base shape, {spelling: callable(x)})."""
    if f == "reshape":
        sh = (2, 3)
        tgt = {"flat": (6,), "minus1": (3, -1), "tuple32": (3, 2)}[arg]
        return sh, {"mg": lambda x: mg.reshape(x, tgt), "np": lambda x: np.reshape(x, tgt), "method": lambda x: x.reshape(tgt),
                    "method_star": lambda x: x.reshape(*tgt)}
    if f == "transpose":
        sh = (2, 3, 4)
        ax = None if arg == "none" else (1, 2, 0)
        return sh, {"mg": lambda x: mg.transpose(x, ax), "np": lambda x: np.transpose(x, ax),
                    "method": lambda x: x.transpose(ax) if ax else x.transpose(),
                    "method_star": lambda x: x.transpose(*ax) if ax else x.transpose(), "T": lambda x: x.T}
    if f == "swapaxes":
        sh = (2, 3, 4)
        a1, a2 = {"a02": (0, 2), "am1_0": (-1, 0)}[arg]
        return sh, {"mg": lambda x: mg.swapaxes(x, a1, a2), "np": lambda x: np.swapaxes(x, a1, a2), "method": lambda x: x.swapaxes(a1, a2)}
    if f == "moveaxis":
        sh = (2, 3, 4)
        s, d = {"m02": (0, 2), "m20": (2, 0), "multi": ((0, 1), (2, 0))}[arg]
        return sh, {"mg": lambda x: mg.moveaxis(x, s, d), "np": lambda x: np.moveaxis(x, s, d), "method": lambda x: x.moveaxis(s, d)}
    if f == "squeeze":
        sh = (2, 1, 3, 1)
        ax = None if arg == "none" else 1
        return sh, {"mg": lambda x: mg.squeeze(x, axis=ax), "np": lambda x: np.squeeze(x, axis=ax), "method": lambda x: x.squeeze(axis=ax)}
    if f == "ravel":
        pre = (lambda x: x.T) if arg == "ofT" else (lambda x: x)
        return (2, 3), {"mg": lambda x: mg.ravel(pre(x)), "np": lambda x: np.ravel(pre(x)), "method": lambda x: pre(x).ravel(),
                        "flatten": lambda x: pre(x).flatten(), "reshape_m1": lambda x: pre(x).reshape(-1),
                        "np_reshape_m1": lambda x: np.reshape(pre(x), -1)}
    if f == "clip":
        lo, hi = {"both": (-0.5, 1.0), "lo": (-0.5, None), "hi": (None, 1.0)}[arg]
        return (2, 3), {"mg": lambda x: mg.clip(x, lo, hi), "np": lambda x: np.clip(x, lo, hi), "method": lambda x: x.clip(lo, hi)}
    if f == "expand_dims":
        ax = {"ax0": 0, "axm1": -1}[arg]
        return (2, 3), {"mg": lambda x: mg.expand_dims(x, ax), "np": lambda x: np.expand_dims(x, ax)}
    if f == "broadcast_to":
        return (3,), {"mg": lambda x: mg.broadcast_to(x, (2, 3)), "np": lambda x: np.broadcast_to(x, (2, 3))}
    if f == "repeat":
        r, ax = {"r2ax0": (2, 0), "r3axm1": (3, -1)}[arg]
        return (2, 3), {"mg": lambda x: mg.repeat(x, r, axis=ax), "np": lambda x: np.repeat(x, r, axis=ax)}
    if f == "roll":
        s, ax = {"s1ax0": (1, 0), "sm1ax1": (-1, 1)}[arg]
        return (2, 3), {"mg": lambda x: mg.roll(x, s, axis=ax), "np": lambda x: np.roll(x, s, axis=ax)}
    if f in ("concatenate", "stack"):
        ax = {"ax0": 0, "axm1": -1}[arg]
        return (2, 3), {"mg": lambda x: getattr(mg, f)([x, x * 2.0], axis=ax), "np": lambda x: getattr(np, f)([x, x * 2.0], axis=ax)}
    if f == "where":
        m = np.array([[True, False, True], [False, True, False]])
        return (2, 3), {"mg": lambda x: mg.where(m, x, x * 2.0), "np": lambda x: np.where(m, x, x * 2.0)}
    if f in ("atleast_1d", "atleast_2d", "atleast_3d"):
        sh = {"from0d": (), "from1d": (3,), "from2d": (2, 3)}[arg]
        return sh, {"mg": lambda x: getattr(mg, f)(x), "np": lambda x: getattr(np, f)(x)}
    if f in ("zeros_like", "ones_like", "full_like"):
        extra = (2.5,) if f == "full_like" else ()
        return (2, 3), {"mg": lambda x: getattr(mg, f)(x, *extra), "np": lambda x: getattr(np, f)(x, *extra)}
    if f == "norm":
        sh, kw = {"vec2": ((3,), {}), "vec1": ((3,), {"ord": 1}), "axis0": ((2, 3), {"axis": 0}),
                  "axism1_keepdims": ((2, 3), {"axis": -1, "keepdims": True})}[arg]
        return sh, {"mg": lambda x: mg.linalg.norm(x, **kw), "np": lambda x: np.linalg.norm(x, **kw)}
    if f == "einsum":
        if arg == "matvec":
            return (3, 3), {"mg": lambda x: mg.einsum("ij,j->i", x, x[0]), "np": lambda x: np.einsum("ij,j->i", x, x[0])}
        if arg == "trace":
            return (3, 3), {"mg": lambda x: mg.einsum("ii->i", x), "np": lambda x: np.einsum("ii->i", x)}
        return (3,), {"mg": lambda x: mg.einsum("i,j->ij", x, x), "np": lambda x: np.einsum("i,j->ij", x, x)}
    raise ValueError(f)


def run_shape(cell):
    sh, calls = _shape_calls(cell["f"], cell["arg"])
    a = arr(sh, "any")
    results = {}
    for sp in cell["spellings"]:
        x = operand(cell["operand"], a)
        r = calls[sp](x)
        results[sp] = summarize(r, [x])
    ref = results["mg"]
    if ref["kind"] != "tensor":
        return ("kind(mg)", "tensor", ref["kind"])
    for sp, got in results.items():
        r = compare(ref, got, ["kind", "val", "dtype", "shape", "constant", "grads"])
        if r is not None:
            return (f"{sp}:{r[0]}", r[1], r[2])
    return None


def run_nondiff(cell):
    f = cell["f"]
    npf = getattr(np, f)
    kinds = cell["operands"]
    base = arr((3,), "any")
    xs, out = [], None
    for i, k in enumerate(kinds):
        if k.startswith("out:"):
            out = operand(k[4:], np.zeros(3))
        else:
            xs.append(operand(k, base + i))
    raws = [raw(x) for x in xs]
    for sp in cell["spellings"]:
        try:
            with warnings.catch_warnings():
                warnings.simplefilter("ignore")
                if sp == "op":
                    r = OPS["//"](xs[0], xs[1])
                elif out is not None:
                    r = npf(*xs, out=out)
                elif f == "shape":
                    r = npf(xs[0])
                else:
                    r = npf(*xs)
        except ValueError as ex:
            if cell["kind"] != "ValueError":
                return (f"kind({sp})", cell["kind"], f"ValueError: {str(ex)[:60]}")
            continue
        if cell["kind"] == "ValueError":
            return (f"kind({sp})", "ValueError", f"returned {type(r).__name__}")
        if isinstance(r, mg.Tensor) or (isinstance(r, tuple) and any(isinstance(q, mg.Tensor) for q in r)):
            return (f"kind({sp})", "ndarray", "Tensor")
        expect = (npf(raws[0]) if f == "shape" else npf(*raws)) if out is None else npf(*raws, out=np.zeros(3))
        if f == "result_type":
            if r != expect:
                return ("value", str(expect), str(r))
        elif not np.array_equal(np.asarray(r), np.asarray(expect)):
            return ("value", np.asarray(expect).tolist(), np.asarray(r).tolist())
    return None


def run_nondiff1(cell):
    """Non-differentiable NumPy functions of one tensor: the result is never a Tensor and equals NumPy's on the raw array."""
    f = cell["f"]
    npf = getattr(np, f)
    base = np.array([1, 0, 2, 2]) if f == "bincount" else arr((3,), "any")
    x = operand(cell["operands"][0], base)
    if f == "bincount":
        x = mg.tensor(base)                      # integer tensor (always constant)
    rw = raw(x)
    args = (2.5,) if f == "full_like" else ()
    with warnings.catch_warnings():
        warnings.simplefilter("ignore")
        r = npf(x, *args)
        expect = npf(rw, *args)
    if isinstance(r, mg.Tensor):
        return ("kind(np)", "ndarray", "Tensor")
    if f == "min_scalar_type":
        return None if r == expect else ("value", str(expect), str(r))
    if f == "empty_like":
        ok = np.shape(r) == np.shape(expect) and np.asarray(r).dtype == np.asarray(expect).dtype
        return None if ok else ("shape/dtype", (np.shape(expect), str(np.asarray(expect).dtype)), (np.shape(r), str(np.asarray(r).dtype)))
    if not np.array_equal(np.asarray(r), np.asarray(expect)) or np.asarray(r).dtype != np.asarray(expect).dtype:
        return ("value", np.asarray(expect).tolist(), np.asarray(r).tolist())
    return None


def run_cell(cell):
    g = cell["group"]
    if g == "nodiff1":
        return run_nondiff1(cell)
    if g in ("binary", "matmul"):
        return run_binary(cell)
    if g == "unary":
        return run_unary(cell)
    if g == "reduce":
        return run_reduce(cell)
    if g == "shape":
        return run_shape(cell)
    return run_nondiff(cell)


def registry_uncovered(cells):
    """Names registered with MyGrad's dispatch tables that no cell of the table mentions."""
    from mygrad.tensor_base import (_REGISTERED_BOOL_ONLY_UFUNC, _REGISTERED_CONST_ONLY_UFUNC,
                                    _REGISTERED_DIFFERENTIABLE_NUMPY_FUNCS, _REGISTERED_NO_DIFF_NUMPY_FUNCS, _REGISTERED_UFUNC)

    covered = {c["f"] for c in cells}
    alias = {"amax": "max", "amin": "min"}
    names = set()
    for reg in (_REGISTERED_UFUNC, _REGISTERED_DIFFERENTIABLE_NUMPY_FUNCS, _REGISTERED_BOOL_ONLY_UFUNC,
                _REGISTERED_CONST_ONLY_UFUNC, _REGISTERED_NO_DIFF_NUMPY_FUNCS):
        names |= {alias.get(f.__name__, f.__name__) for f in reg}
    return sorted(names - covered)

"""C02 binding for spec/tables/Interp.tla: kernels built from exp / log / sqrt, evaluated at interpretation points where
TLC can state the exact value and vector-Jacobian product.  The harness feeds float64 ln(q) / q to MyGrad, back-propagates
the table's seed and compares with 1e-9 relative tolerance (the declared numeric assumption of C02)."""
from __future__ import annotations

import math
from fractions import Fraction

import numpy as np

import mygrad as mg

TOL = 1e-9


def _q(r):
    return Fraction(r[0], r[1])


def _close(a, b):
    if not (math.isfinite(a) and math.isfinite(b)):
        return a == b
    return abs(a - b) <= TOL * max(1.0, abs(a), abs(b))


def run_cell(item):
    """Returns None when MyGrad agrees with the table, else (what, expected, observed)."""
    c, e = item["cell"], item["expected"]
    f = c["f"]
    sh = tuple(c["sh"])
    nx = int(np.prod(sh)) if sh else 1
    vals = [math.log(_q(el["q"])) if el["k"] == "log" else float(_q(el["q"])) for el in c["x"]]
    xa = np.array(vals[:nx], dtype=np.float64).reshape(sh)
    if "off" in c:      # per-row shifts (rows along axis 0): the functions of these cells are invariant under them
        xa = xa + np.array(c["off"][: sh[0]], dtype=np.float64).reshape((sh[0],) + (1,) * (len(sh) - 1))
    x = mg.tensor(xa)
    extra = []
    if f == "sigmoid":
        out = mg.nnet.activations.sigmoid(x)
    elif f == "softmax":
        out = mg.nnet.activations.softmax(x, axis=c["axis"])
    elif f == "logsoftmax":
        out = mg.nnet.activations.logsoftmax(x, axis=c["axis"])
    elif f == "softmax_crossentropy":
        out = mg.nnet.losses.softmax_crossentropy(x, np.array(c["y"], dtype=np.int64))
    elif f == "elu":
        out = mg.nnet.activations.elu(x, float(_q(c["alpha"])))
    elif f == "glu":
        out = mg.nnet.activations.glu(x, axis=c["axis"])
    elif f == "std":
        out = mg.std(x, axis=tuple(c["axes"]), ddof=c["ddof"])
    elif f == "norm":
        if len(c["axes"]) == len(sh):
            out = mg.linalg.norm(x, ord=(None if c["ord"] == 2 and len(sh) > 1 else c["ord"]), axis=None)
        else:
            out = mg.linalg.norm(x, ord=c["ord"], axis=c["axes"][0])
    elif f == "batchnorm":
        ch = sh[1]
        if c["affine"]:
            gamma = mg.tensor(np.array(vals[nx:nx + ch]))
            beta = mg.tensor(np.array(vals[nx + ch:nx + 2 * ch]))
            extra = [gamma, beta]
            out = mg.nnet.layers.batchnorm(x, gamma=gamma, beta=beta, eps=float(_q(c["eps"])))
        else:
            out = mg.nnet.layers.batchnorm(x, eps=float(_q(c["eps"])))
    else:  # pragma: no cover
        raise ValueError(f)
    # values (where rational at this point)
    ov = np.asarray(out.data, dtype=np.float64).ravel()
    if len(ov) != len(e["val"]):
        return ("result size", len(e["val"]), len(ov))
    for p, ev in enumerate(e["val"]):
        if not ev["irr"] and not _close(float(_q(ev["v"])), float(ov[p])):
            return (f"value[{p}]", float(_q(ev["v"])), float(ov[p]))
        if ev["irr"] and "lf" in ev:
            # a finite sum of rational multiples of logarithms of rationals, evaluated in extended precision
            want = float(sum(np.longdouble(float(_q(t[0]))) * np.log(np.longdouble(_q(t[1]).numerator) / np.longdouble(_q(t[1]).denominator))
                             for t in ev["lf"]))
            if not _close(want, float(ov[p])):
                return (f"value[{p}]", want, float(ov[p]))
        elif ev["irr"] and not np.isfinite(ov[p]):
            return (f"value[{p}]", "finite", float(ov[p]))
    seed = np.array([float(_q(g)) for g in e["seed"]]).reshape(out.shape)
    out.backward(seed)
    grads = [x.grad.ravel()] + [t.grad.ravel() for t in extra]
    got = np.concatenate(grads)
    if len(got) != len(e["grad"]):
        return ("gradient size", len(e["grad"]), len(got))
    for i, g in enumerate(e["grad"]):
        if not _close(float(_q(g)), float(got[i])):
            return (f"grad[{i}]", float(_q(g)), float(got[i]))
    return None

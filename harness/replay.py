"""spec -> code: behaviours enumerated (or simulated) by TLC from spec/RefGen.tla are executed on the real
MyGrad; the projection TLC predicts after every statement is compared with the observed one.
The comparison is plain equality of JSON values - no semantics lives here."""
from __future__ import annotations

import json
import os
import tempfile
from concurrent.futures import ThreadPoolExecutor

from . import tlc
from .driver import run_program

SPEC = os.path.join(tlc.SPEC, "RefGen.tla")


def _cfg_text(max_stmts, max_h, case, alphabet, invariants=("Emit", "GradOnlyIfNonConst", "BaseIsOwner", "SharingIsFamily")):
    alph = ", ".join(f'"{a}"' for a in alphabet)
    inv = "\n".join(f"INVARIANT {i}" for i in invariants)
    return (f"SPECIFICATION Spec\nCONSTANTS\n  MaxStmts = {max_stmts}\n  MaxH = {max_h}\n  Case = {case}\n"
            f"  Alphabet = {{{alph}}}\n{inv}\nCHECK_DEADLOCK FALSE\n")


def parse_behaviours(out: str):
    beh = []
    bad = 0
    for line in out.splitlines():
        if not line.startswith('<<"BEHAVIOUR", '):
            continue
        body = line[len('<<"BEHAVIOUR", '):]
        if not body.endswith(">>"):
            bad += 1
            continue
        try:
            beh.append(json.loads(json.loads(body[:-2])))
        except Exception:
            bad += 1
    return beh, bad


def enumerate_behaviours(max_stmts, max_h, cases, alphabet, *, simulate=None, seed=0, timeout=3600):
    """Runs one TLC per case in parallel (workers=1 each so that PrintT lines are never interleaved).
    simulate = (num, depth) switches from exhaustive BFS to random simulation."""
    scratch = tempfile.mkdtemp(prefix="verif-gen-")
    results = {}

    def work(case):
        cfg = os.path.join(scratch, f"RefGen_{case}.cfg")
        with open(cfg, "w") as f:
            f.write(_cfg_text(max_stmts, max_h, case, alphabet))
        extra = ()
        if simulate:
            num, depth = simulate
            extra = ("-simulate", f"num={num}", "-depth", str(depth), "-seed", str(seed + case))
        rc, out, wall = tlc.run_tlc(SPEC, cfg, workers=1, extra=extra, timeout=timeout, heap="4g")
        results[case] = (rc, out, wall)

    try:
        with ThreadPoolExecutor(max_workers=16) as ex:
            list(ex.map(work, cases))
    finally:
        import shutil

        shutil.rmtree(scratch, ignore_errors=True)
    return results


FIELDS = ("live", "v", "sh", "const", "base", "crn", "g")


def _norm(x):
    """JSON produced by TLC's ToJson and by the driver differ only in list/tuple spelling."""
    if isinstance(x, dict):
        return {k: _norm(v) for k, v in x.items()}
    if isinstance(x, (list, tuple)):
        return [_norm(v) for v in x]
    return x


def compare(beh: list[dict], fields=FIELDS):
    """Replays one behaviour.  Returns None if everything agrees, else (line, field, handle, predicted, observed)."""
    prog = [e["stmt"] for e in beh]
    tr = run_program(prog)
    if tr is None:
        return ("out_of_model", 0, None, None, None)
    for i, (e, line) in enumerate(zip(beh, tr), 1):
        if line["exc_np"] != "none":
            return ("np_model_mismatch", i, 0, "none", line["exc_np"])
        if line["exc"] != "none":
            return (i, "exc", 0, "none", line["exc"])
        p = e["proj"]
        if not p:
            continue
        obs = line["obs"]
        pt, ot = p["t"], obs["t"]
        if len(pt) != len(ot):
            return (i, "handles", 0, len(pt), len(ot))
        for h, (a, b) in enumerate(zip(pt, ot), 1):
            if a["live"] != b["live"]:
                return (i, "live", h, a["live"], b["live"])
            if not a["live"]:
                continue
            for f in fields:
                if f == "live":
                    continue
                pa, ob = _norm(a[f]), _norm(b[f])
                if f == "g":
                    if pa.get("u"):
                        continue        # the specification leaves this gradient unspecified
                    ob = {k: ob[k] for k in ("none", "v") if k in ob}
                if pa != ob:
                    return (i, f, h, pa, ob)
        if "share" in fields or True:
            ps = sorted(_norm(p["share"]))
            os_ = sorted(_norm(obs["share"]))
            if ps != os_:
                return (i, "share", 0, ps, os_)
    if len(tr) != len(beh):
        return (len(tr), "length", 0, len(beh), len(tr))
    return None

"""spec -> code: behaviours enumerated (or simulated) by TLC from spec/RefGen.tla are executed on the real
MyGrad; the projection TLC predicts after every statement is compared with the observed one.
The comparison is plain equality of JSON values - no semantics lives here."""
from __future__ import annotations

import json
import os
import tempfile
from concurrent.futures import ThreadPoolExecutor

from . import tlc
from .driver import run_program

SPEC = os.path.join(tlc.SPEC, "RefGen.tla")


def _cfg_text(max_stmts, max_h, case, alphabet, invariants=("Emit", "GradOnlyIfNonConst", "BaseIsOwner", "SharingIsFamily")):
    alph = ", ".join(f'"{a}"' for a in alphabet)
    inv = "\n".join(f"INVARIANT {i}" for i in invariants)
    return (f"SPECIFICATION Spec\nCONSTANTS\n  MaxStmts = {max_stmts}\n  MaxH = {max_h}\n  Case = {case}\n"
            f"  Alphabet = {{{alph}}}\n{inv}\nCHECK_DEADLOCK FALSE\n")


def parse_behaviours(out: str):
    beh = []
    bad = 0
    for line in out.splitlines():
        if not line.startswith('<<"BEHAVIOUR", '):
            continue
        body = line[len('<<"BEHAVIOUR", '):]
        if not body.endswith(">>"):
            bad += 1
            continue
        try:
            beh.append(json.loads(json.loads(body[:-2])))
        except Exception:
            bad += 1
    return beh, bad


def enumerate_behaviours(max_stmts, max_h, cases, alphabet, *, simulate=None, seed=0, timeout=3600):
    """Runs one TLC per case in parallel (workers=1 each so that PrintT lines are never interleaved).
    simulate = (num, depth) switches from exhaustive BFS to random simulation."""
    scratch = tempfile.mkdtemp(prefix="verif-gen-")
    results = {}

    def work(case):
        cfg = os.path.join(scratch, f"RefGen_{case}.cfg")
        with open(cfg, "w") as f:
            f.write(_cfg_text(max_stmts, max_h, case, alphabet))
        extra = ()
        if simulate:
            num, depth = simulate
            extra = ("-simulate", f"num={num}", "-depth", str(depth), "-seed", str(seed + case))
        rc, out, wall = tlc.run_tlc(SPEC, cfg, workers=1, extra=extra, timeout=timeout, heap="4g")
        results[case] = (rc, out, wall)

    try:
        with ThreadPoolExecutor(max_workers=16) as ex:
            list(ex.map(work, cases))
    finally:
        import shutil

        shutil.rmtree(scratch, ignore_errors=True)
    return results


def enumerate_to_files(max_stmts, max_h, cases, alphabet, scratch, *, simulate=None, seed=0, timeout=7200):
    """One TLC per case in parallel, output to <scratch>/case_<n>.out.  Returns {case: (rc, path, wall)}."""
    results = {}

    def work(case):
        cfg = os.path.join(scratch, f"RefGen_{case}.cfg")
        with open(cfg, "w") as f:
            f.write(_cfg_text(max_stmts, max_h, case, alphabet))
        extra = ()
        if simulate:
            num, depth = simulate
            extra = ("-simulate", f"num={num}", "-depth", str(depth), "-seed", str(seed + case))
        path = os.path.join(scratch, f"case_{case}.out")
        rc, wall = tlc.run_tlc_to_file(SPEC, cfg, path, workers=1, extra=extra, timeout=timeout, heap="4g")
        results[case] = (rc, path, wall)

    with ThreadPoolExecutor(max_workers=16) as ex:
        list(ex.map(work, cases))
    return results


_PREFIX = b'<<"BEHAVIOUR", '


def chunk_offsets(path, per_chunk=2000):
    """Byte ranges of `path`, each holding about per_chunk BEHAVIOUR lines; plus the tail of the file (TLC's summary)."""
    chunks = []
    start = None
    n = 0
    pos = 0
    total = 0
    with open(path, "rb") as f:
        for line in f:
            if line.startswith(_PREFIX):
                if start is None:
                    start = pos
                n += 1
                total += 1
                if n >= per_chunk:
                    chunks.append((start, pos + len(line)))
                    start, n = None, 0
            pos += len(line)
    if start is not None:
        chunks.append((start, pos))
    return chunks, total


def compare_chunk(args):
    """Worker: replays the behaviours in one byte range.  Returns a compact, picklable summary."""
    path, lo, hi, fields, open_kfs = args
    with open(path, "rb") as f:
        f.seek(lo)
        data = f.read(hi - lo).decode()
    behs, bad = parse_behaviours(data)
    res = {"n": len(behs), "ok": 0, "bad_lines": bad, "oom": 0, "npmm": [], "kf": {}, "viol": [], "sample": None}
    for b in behs:
        r = compare(b, fields)
        if r is None:
            res["ok"] += 1
            if res["sample"] is None:
                res["sample"] = [e["stmt"] for e in b]
            continue
        line, field, h, pred, obs = r
        if line == "out_of_model":
            res["oom"] += 1
            continue
        if line == "np_model_mismatch":
            if len(res["npmm"]) < 3:
                res["npmm"].append({"clause": "exc", "line": field, "program": [e["stmt"] for e in b]})
            else:
                res["npmm"].append(None)
            continue
        kfs = set(b[line - 1]["proj"]["kf"]) if b[line - 1]["proj"] else set()
        hit = None
        for key in sorted(kfs):
            if key in open_kfs and (open_kfs[key] is None or field in open_kfs[key]):
                hit = key
        if hit:
            res["kf"][hit] = res["kf"].get(hit, 0) + 1
            continue
        if len(res["viol"]) < 25:
            res["viol"].append({"program": [e["stmt"] for e in b], "failing_line": line, "field": field, "handle": h,
                                "predicted": pred, "observed": obs})
        else:
            res["viol"].append(None)
    return res


FIELDS = ("live", "v", "sh", "const", "base", "crn", "g")


def _norm(x):
    """JSON produced by TLC's ToJson and by the driver differ only in list/tuple spelling."""
    if isinstance(x, dict):
        return {k: _norm(v) for k, v in x.items()}
    if isinstance(x, (list, tuple)):
        return [_norm(v) for v in x]
    return x


def compare(beh: list[dict], fields=FIELDS):
    """Replays one behaviour.  Returns None if everything agrees, else (line, field, handle, predicted, observed)."""
    prog = [e["stmt"] for e in beh]
    tr = run_program(prog)
    if tr is None:
        return ("out_of_model", 0, None, None, None)
    for i, (e, line) in enumerate(zip(beh, tr), 1):
        if line["exc_np"] != "none":
            return ("np_model_mismatch", i, 0, "none", line["exc_np"])
        if line["exc"] != "none":
            return (i, "exc", 0, "none", line["exc"])
        p = e["proj"]
        if not p:
            continue
        obs = line["obs"]
        pt, ot = p["t"], obs["t"]
        if len(pt) != len(ot):
            return (i, "handles", 0, len(pt), len(ot))
        for h, (a, b) in enumerate(zip(pt, ot), 1):
            if a["live"] != b["live"]:
                return (i, "live", h, a["live"], b["live"])
            if not a["live"]:
                continue
            for f in fields:
                if f == "live":
                    continue
                pa, ob = _norm(a[f]), _norm(b[f])
                if f == "g":
                    if pa.get("u"):
                        continue        # the specification leaves this gradient unspecified
                    ob = {k: ob[k] for k in ("none", "v") if k in ob}
                if pa != ob:
                    return (i, f, h, pa, ob)
        if "share" in fields or True:
            ps = sorted(_norm(p["share"]))
            os_ = sorted(_norm(obs["share"]))
            if ps != os_:
                return (i, "share", 0, ps, os_)
        # arrays the caller handed in (operands, index arrays, masks, seeds) are never written to (C12)
        if obs.get("mut"):
            return (i, "inputs", 0, 0, obs["mut"])
    if len(tr) != len(beh):
        return (len(tr), "length", 0, len(beh), len(tr))
    return None

"""nnet part of C14 / C12: every cell of spec/tables/LayerTyping.tla executed: after backward every tensor input's
gradient is an ndarray of the input's shape and dtype; the caller's seed array is left untouched."""
from __future__ import annotations

import warnings

import numpy as np

import mygrad as mg
from mygrad.nnet import activations as A
from mygrad.nnet import layers as L
from mygrad.nnet import losses as LS

DT = {"f8": np.float64, "f4": np.float32, "f2": np.float16}


def vals(shape, dt, off=0):
    n = int(np.prod(shape))
    return (np.array([((i * 3 + off) % 7) / 4.0 + 0.25 for i in range(n)]).reshape(shape)).astype(DT[dt])


def build(layer, dts):
    """Returns (inputs: list[Tensor], output Tensor)."""
    y = np.array([0, 2, 1])
    if layer in ("relu", "sigmoid", "tanh", "selu", "soft_sign", "softmax", "logsoftmax"):
        x = mg.tensor(vals((3, 4), dts[0]) - 0.9)
        f = {"relu": A.relu, "sigmoid": A.sigmoid, "tanh": A.tanh, "selu": A.selu, "soft_sign": A.soft_sign,
             "softmax": A.softmax, "logsoftmax": A.logsoftmax}[layer]
        return [x], f(x)
    if layer == "elu":
        x = mg.tensor(vals((3, 4), dts[0]) - 0.9)
        return [x], A.elu(x, alpha=0.5)
    if layer == "leaky_relu":
        x = mg.tensor(vals((3, 4), dts[0]) - 0.9)
        return [x], A.leaky_relu(x, slope=0.1)
    if layer == "hard_tanh":
        x = mg.tensor(vals((3, 4), dts[0]) - 0.9)
        return [x], A.hard_tanh(x)
    if layer == "glu":
        x = mg.tensor(vals((3, 4), dts[0]) - 0.9)
        return [x], A.glu(x)
    if layer in ("softmax_crossentropy", "negative_log_likelihood", "multiclass_hinge", "focal_loss", "softmax_focal_loss"):
        x = mg.tensor(vals((3, 4), dts[0]))
        if layer == "negative_log_likelihood":
            return [x], LS.negative_log_likelihood(A.logsoftmax(x), y)
        if layer == "focal_loss":
            p = A.softmax(x)
            return [x], LS.focal_loss(p, y, alpha=0.5, gamma=2).sum()
        if layer == "softmax_focal_loss":
            return [x], LS.softmax_focal_loss(x, y, alpha=0.5, gamma=2).sum()
        return [x], {"softmax_crossentropy": LS.softmax_crossentropy, "multiclass_hinge": LS.multiclass_hinge}[layer](x, y)
    if layer == "margin_ranking_loss":
        a, b = mg.tensor(vals((4,), dts[0])), mg.tensor(vals((4,), dts[1], 2))
        return [a, b], LS.margin_ranking_loss(a, b, np.array([1, -1, 1, -1]), margin=0.5)
    if layer == "conv_nd":
        x, w = mg.tensor(vals((2, 2, 5), dts[0])), mg.tensor(vals((3, 2, 2), dts[1], 1))
        return [x, w], L.conv_nd(x, w, stride=1)
    if layer == "max_pool":
        x = mg.tensor(vals((2, 4, 4), dts[0]))
        return [x], L.max_pool(x, (2, 2), 2)
    if layer == "batchnorm":
        x, g, b = mg.tensor(vals((4, 3), dts[0])), mg.tensor(vals((3,), dts[1], 1)), mg.tensor(vals((3,), dts[2], 2))
        return [x, g, b], L.batchnorm(x, gamma=g, beta=b, eps=1e-3)
    if layer == "gru":
        T, N, C, D = 3, 2, 2, 3
        X = mg.tensor(vals((T, N, C), dts[0]) - 0.7)
        ws = []
        for i, (shape, dt) in enumerate(zip([(C, D), (D, D), (D,)] * 3, dts[1:])):
            ws.append(mg.tensor(vals(shape, dt, i) - 0.8))
        s = L.gru(X, *ws)
        return [X] + ws, s
    raise ValueError(layer)


def run_cell(item):
    """Returns a list of (what, expected, observed, finding-key-or-None) disagreements."""
    c = item["cell"]
    out = []
    with warnings.catch_warnings():
        warnings.simplefilter("ignore")
        ins, res = build(c["layer"], c["dtypes"])
        if c["seed"] == "array":
            seed = (np.arange(res.size).reshape(res.shape) % 3 + 1).astype(res.dtype)
            keep = seed.copy()
            res.backward(seed)
            if not np.array_equal(seed, keep):
                out.append(("seed modified", "unchanged", "changed", "F-C12-1"))
        else:
            res.backward()
    for i, t in enumerate(ins + [res]):
        g = t.grad
        name = f"input {i}" if i < len(ins) else "output"
        if g is None:
            out.append((f"{name}: grad", "ndarray", None, None))
            continue
        if type(g) is not np.ndarray:
            out.append((f"{name}: grad type", "ndarray", type(g).__name__, None))
        if g.shape != t.shape:
            out.append((f"{name}: grad shape", list(t.shape), list(g.shape), "F-C14-1" if name == "output" else None))
        if g.dtype != t.dtype:
            out.append((f"{name}: grad dtype", str(t.dtype), str(g.dtype), None))
    return out

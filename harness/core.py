"""Shared machinery of the checks: evidence files, known findings, violations / replays, the generic
trace-validation check (code -> spec) and TLC design runs (exhaustive / simulation)."""
from __future__ import annotations

import collections
import hashlib
import json
import os
import re
import shutil
import sys
import tempfile
import time

from . import tlc

VERIF = tlc.VERIF
# VERIF_OUT redirects evidence/replays of EXPERIMENTAL runs (seeded-change evaluation); registered commands never set it
_OUT = os.environ.get("VERIF_OUT", VERIF)
EVID = os.path.join(_OUT, "evidence")
REPLAYS = os.path.join(_OUT, "replays")
KF_FILE = os.path.join(VERIF, "known_findings.json")


def seed_from_env(default=0) -> int:
    try:
        return int(os.environ.get("VERIF_SEED", default))
    except ValueError:
        return default


# ----------------------------------------------------------------------------- known findings
def load_known_findings():
    with open(KF_FILE) as f:
        return json.load(f)["findings"]


class Outcome:
    """Collects what one check run saw; decides exit code; writes evidence."""

    def __init__(self, prop: str, tier: str, seed: int, level: str):
        self.prop, self.tier, self.seed, self.level = prop, tier, seed, level
        self.t0 = time.time()
        self.violations: list[str] = []
        self.kf_hits: collections.Counter = collections.Counter()
        self.coverage: dict = {"samples": []}
        self.assumptions: list[str] = []
        self.notes: list[str] = []
        self.machinery_errors: list[str] = []
        self.model_mismatches: list[dict] = []
        self.judged = 0
        self.out_of_model = 0
        self.spec_errors = 0
        self.kfs = load_known_findings()  # a finding may surface in any check whose programs reach its trigger

    # -- known findings
    def open_kf(self, key: str):
        for k in self.kfs:
            if k["key"] == key and k["status"] == "open":
                return k
        return None

    def kf_hit(self, key: str):
        self.kf_hits[key] += 1

    # -- violations
    def violation(self, replay: dict, summary: str):
        os.makedirs(os.path.join(REPLAYS, self.prop), exist_ok=True)
        blob = json.dumps(replay, sort_keys=True)
        sha = hashlib.sha1(blob.encode()).hexdigest()[:12]
        path = os.path.join(REPLAYS, self.prop, f"{sha}.json")
        with open(path, "w") as f:
            json.dump(replay, f, indent=1)
        if len(self.violations) < 20:
            print(f"VIOLATION property={self.prop} replay={path}")
            print(f"  {summary}")
        self.violations.append(path)

    def machinery(self, msg: str):
        self.machinery_errors.append(msg)
        print(f"MACHINERY-ERROR property={self.prop}: {msg}", file=sys.stderr)

    def add_sample(self, s, limit=3):
        if len(self.coverage["samples"]) < limit:
            self.coverage["samples"].append(s)

    def finish(self) -> int:
        try:
            from . import witness

            witness.run(self)
        except ImportError as ex:  # mygrad not importable here: nothing to re-execute
            self.notes.append(f"known-finding witnesses not executed: {ex}")
        for key, n in sorted(self.kf_hits.items()):
            k = self.open_kf(key)
            what = k["what"] if k else key
            print(f"KNOWN-FINDING: property={self.prop} {key} {what} (seen {n}x in this run)")
        if self.model_mismatches:
            self.coverage["np_model_mismatches"] = {"count": len(self.model_mismatches),
                                                    "examples": self.model_mismatches[:3]}
            if len(self.model_mismatches) > max(3, 0.02 * max(1, self.judged)):
                self.machinery(f"{len(self.model_mismatches)} of {self.judged} cases: the model of NumPy disagrees with NumPy")
        if self.out_of_model:
            self.coverage["out_of_model"] = self.out_of_model
            if self.out_of_model > 0.05 * max(1, self.judged):
                self.machinery(f"{self.out_of_model} of {self.judged} cases left the 32-bit-safe range of the specification")
        if tlc.DUPLICATE_VERDICT_LINES:
            self.notes.append(f"TLC printed {len(tlc.DUPLICATE_VERDICT_LINES)} VERDICT line(s) twice (identical; counted once): "
                              f"{tlc.DUPLICATE_VERDICT_LINES[:3]}")
        if self.spec_errors:
            self.coverage["spec_errors"] = self.spec_errors
            self.notes.append(f"{self.spec_errors} trace(s) on which TLC failed to evaluate the specification were not judged "
                              f"(kept under replays/_spec_errors)")
            if self.spec_errors > max(1, 0.01 * max(1, self.judged)):
                self.machinery(f"{self.spec_errors} of {self.judged} traces: TLC failed to evaluate the specification")
        ev = {
            "property_id": self.prop,
            "tier": self.tier,
            "seed": self.seed,
            "level": self.level,
            "coverage": self.coverage,
            "assumptions": self.assumptions,
            "wall_s": round(time.time() - self.t0, 2),
            "violations": len(self.violations),
            "known_finding_hits": dict(self.kf_hits),
            "notes": self.notes,
            "machinery_errors": self.machinery_errors,
        }
        os.makedirs(EVID, exist_ok=True)
        with open(os.path.join(EVID, f"{self.prop}.json"), "w") as f:
            json.dump(ev, f, indent=1, default=str)
        if self.machinery_errors:
            return 2
        if self.violations:
            return 1
        print(f"OK property={self.prop} tier={self.tier} seed={self.seed} wall={ev['wall_s']}s "
              f"kf_hits={dict(self.kf_hits)}")
        return 0


# ----------------------------------------------------------------------------- TLC design runs
_COV = re.compile(r"<(\w+) line (\d+), col \d+ to line \d+, col \d+ of module (\w+)>: (\d+):(\d+)")


def design_run(out: Outcome, spec: str, cfg: str, *, workers=16, timeout=1800, extra=(), expect_violation=False,
               label="design", coverage=True):
    """Exhaustive (or -simulate, via extra) TLC run of a mechanism / table model.  Records states and
    per-action coverage in the evidence; an invariant violation is returned to the caller."""
    # (TLC's coverage statistics of deeply recursive operators can exhaust the heap: MemGuard runs without them)
    rc, o, wall = tlc.run_tlc(spec, cfg, workers=workers, timeout=timeout,
                              extra=(("-coverage", "1", *extra) if coverage else tuple(extra)), heap="8g")
    stats = tlc.parse_stats(o)
    cov = {}
    for m in _COV.finditer(o):
        name, _line, mod, a, b = m.groups()
        cov[f"{mod}.{name}"] = max(cov.get(f"{mod}.{name}", 0), int(a))
    info = {"spec": os.path.relpath(spec, VERIF), "cfg": os.path.relpath(cfg, VERIF), "wall_s": round(wall, 1),
            "states_generated": stats["generated"] if stats else None,
            "distinct_states": stats["distinct"] if stats else None,
            "action_coverage": cov, "rc": rc}
    out.coverage.setdefault("tlc_runs", []).append({"label": label, **info})
    violated = "is violated" in o or "Error: Invariant" in o or "Error: Action property" in o
    if rc != 0 and not violated:
        out.machinery(f"TLC failed on {spec} ({cfg}) rc={rc}: {o[-1500:]}")
    never = [k for k, v in cov.items() if v == 0]
    if never:
        info["actions_never_taken"] = never
    return info, o, violated


# ----------------------------------------------------------------------------- generic trace check
_TAINT = re.compile(r'<<"TAINT",\s*(\d+),\s*\{([^}]*)\}>>')


def validate_traces(out: Outcome, spec: str, cfg: str, clauses: list[str], items: list[dict], *,
                    jobs=16, chunk=None, kf_clauses: dict | None = None):
    """items: [{"prog":..., "trace":..., "meta":...}].  Validates every trace against the TLA+ trace spec.
    Classifies: ok / known finding (taint of an OPEN finding + permitted clause) / violation / model mismatch."""
    scratch = tempfile.mkdtemp(prefix="verif-tr-")
    try:
        traces = [it["trace"] for it in items]
        chunk = chunk or max(8, min(200, len(traces) // jobs + 1))
        verdicts, outs, stats = tlc.validate_parallel(spec, cfg, clauses, traces, scratch, jobs=jobs, chunk=chunk)
        # taints are reported per chunk-local tid
        taints = {}
        nchunks = (len(traces) + chunk - 1) // chunk
        for ci in range(nchunks):
            for m in _TAINT.finditer(outs[ci]):
                taints[ci * chunk + int(m.group(1)) - 1] = {x.strip().strip('"') for x in m.group(2).split(",") if x.strip()}
        counts = collections.Counter()
        out.judged += len(items)
        for i, (it, (clause, line)) in enumerate(zip(items, verdicts)):
            if clause == "ok":
                counts["ok"] += 1
                continue
            if clause == "out_of_model":
                counts[clause] += 1
                out.out_of_model += 1
                continue
            if clause == "spec_error":
                # TLC itself failed while evaluating the specification on this trace (isolated by bisection): says
                # nothing about the code; kept for repair of the specification, a rate above 1% is a machinery error
                counts[clause] += 1
                out.spec_errors += 1
                os.makedirs(os.path.join(REPLAYS, "_spec_errors"), exist_ok=True)
                blob = json.dumps(it["prog"], sort_keys=True)
                with open(os.path.join(REPLAYS, "_spec_errors", hashlib.sha1(blob.encode()).hexdigest()[:12] + ".json"), "w") as f:
                    json.dump({"property": out.prop, "program": it["prog"], "trace": it["trace"],
                               "tlc": next((e["tlc"] for e in tlc.SPEC_ERRORS if e["trace"] == it["trace"]), "")}, f, indent=1)
                continue
            if clause.startswith("np_model_mismatch"):
                # the specification's model of NumPy itself disagrees with the NumPy twin on this trace: the trace
                # is not judged (neither accepted nor rejected); it is counted, and a high rate is a machinery error
                counts[clause] += 1
                out.model_mismatches.append({"clause": clause, "line": line, "program": it["prog"][:line]})
                continue
            hit = None
            for key in sorted(taints.get(i, ())):
                k = out.open_kf(key)
                if k is not None and (clause in k.get("clauses", [clause])):
                    hit = key
                    break
            if hit:
                counts["kf:" + hit] += 1
                out.kf_hit(hit)
                continue
            counts["rejected:" + clause] += 1
            out.violation({"kind": "trace", "spec": os.path.relpath(spec, VERIF), "clauses": clauses,
                           "program": it["prog"], "failing_line": line, "clause": clause,
                           "observed": it["trace"][line - 1], "taint": sorted(taints.get(i, ())), "meta": it.get("meta")},
                          f"trace rejected at statement {line} on clause '{clause}'")
        return counts, stats
    finally:
        shutil.rmtree(scratch, ignore_errors=True)

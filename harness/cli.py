from __future__ import annotations

import argparse
import os
import sys


def main(argv=None) -> int:
    ap = argparse.ArgumentParser()
    ap.add_argument("prop")
    ap.add_argument("--tier", default=os.environ.get("VERIF_TIER", "quick"), choices=["quick", "thorough"])
    ap.add_argument("--replay")
    a = ap.parse_args(argv)
    from . import checks, core

    seed = core.seed_from_env(0)
    if a.replay:
        return checks.replay_file(a.replay)
    if a.prop in checks.REF_PROPS:
        return checks.check_ref_property(a.prop, a.tier, seed)
    fn = getattr(checks, "check_" + a.prop, None)
    if fn is None:
        print(f"unknown property {a.prop}", file=sys.stderr)
        return 2
    return fn(a.tier, seed)


if __name__ == "__main__":
    sys.exit(main())

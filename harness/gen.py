"""Random program generators over the statement language (seeded; deterministic for a given seed).

The generator keeps its own NumPy twin of the program it is building and uses *NumPy itself* to decide
whether a candidate statement is well-typed (shapes broadcast, index valid, assignment legal) and keeps
magnitudes inside the exact fragment.  It never computes an expected result: that is TLC's job.
"""
from __future__ import annotations

import copy
import random

import numpy as np

from .stmts import Exec, enc_arr, enc_num, sl, OutOfModel

MAXABS = 400.0
MAXSIZE = 12


def R(n, d=1):
    from fractions import Fraction

    f = Fraction(n, d)
    return [f.numerator, f.denominator]


VALS = [-3, -2, -1, 1, 2, 3, 4, -4, 0]
HALVES = [R(1, 2), R(-1, 2), R(3, 2), R(-3, 2), R(5, 2)]


class GenSkip(Exception):
    pass


class Gen:
    def __init__(self, rng: random.Random, profile: dict):
        self.rng = rng
        self.p = profile
        self.np = Exec("np")
        self.prog: list[dict] = []
        self.nh = 0
        self.const: dict[int, bool] = {}
        self.isview: dict[int, bool] = {}  # views (in NumPy's sense) of some other handle
        self.epoch_views: set[int] = set()
        self.readonly: set[int] = set()
        self.scopes: list = []
        self.last_L = None
        self.must_use = None          # a handle the next terminal has to depend on
        self.fresh_reused = None      # the view carried over at the last epoch boundary (candidate for an immediate update)
        self.last_backward = {}
        # views carried over from an earlier epoch (graph cleared, base lingering until their next use as an operand).  They are
        # never the TERMINAL of a backward(): MyGrad stores the seed on such a tensor but `.grad` - which, for a tensor with a
        # base, is derived from the base - does not show it (observed; DESIGN 7.2)
        self.disconnected: set[int] = set()
        self.stale: set[int] = set()  # views kept across an epoch boundary: observed (and null_grad-ed) but never used again
        self.lowprec = False  # a float16/32 tensor exists: avoid divisions (their gradients are inexact in low precision)
        self.unguarded: set[int] = set()  # operands/results of ops recorded while the memory guard was off

    # ------------------------------------------------------------------ helpers
    def new(self):
        return 0  # provisional; `emit` assigns the real handle id

    def live(self):
        return [h for h in self.np.H.keys() if h not in self.stale]

    def arr(self, h):
        return self.np.H[h]

    def emit(self, s, const=None, view=False) -> bool:
        """Try the statement on the twin; keep it only if NumPy accepts it and magnitudes stay small."""
        snap = None
        if s["k"] in ("op", "leaf"):
            s["h"] = self.nh + 1
        if s["k"] in ("setitem", "aug", "uout", "setshape"):
            snap = {h: a.copy() for h, a in self.np.H.items()}
        try:
            with np.errstate(all="raise"):
                self.np.run(s)
        except Exception:
            if snap is not None:
                for h, a in snap.items():
                    if self.np.H[h].flags.writeable:
                        self.np.H[h][...] = a
            if s.get("h") in self.np.H and s["k"] in ("op", "leaf"):
                del self.np.H[s["h"]]
            return False
        ok = True
        for h, a in self.np.H.items():
            if a.size > MAXSIZE * 2 or a.ndim > 3:
                ok = False
            elif a.size and (not np.all(np.isfinite(a)) or np.max(np.abs(a)) > MAXABS):
                ok = False
            else:
                try:
                    enc_arr(a)
                except OutOfModel:
                    ok = False
        if not ok:
            if snap is not None:
                for h, a in snap.items():
                    if self.np.H[h].flags.writeable:
                        self.np.H[h][...] = a
            elif s["k"] in ("op", "leaf"):
                del self.np.H[s["h"]]
            return False
        if (s["k"] == "op" and (s.get("kw") or {}).get("constant") == "false" and self.tracking()
                and self.np.H[s["h"]].dtype.kind in "iub"):
            # constant=False on an integer-valued result: MyGrad must refuse (C10); a failing statement
            s["intres"] = True
            s["fail"] = True
            del self.np.H[s["h"]]
            self.prog.append(s)
            return False
        if (s["k"] == "op" and view and self.np.H[s["h"]].size == 0
                and any(o.get("h") in self.disconnected for o in s["a"])):
            # an EMPTY view of a disconnected view: MyGrad cannot tell it is a view (no memory to share) - outside the domain
            del self.np.H[s["h"]]
            return False
        self.prog.append(s)
        if s["k"] == "op" and self.tracking() and not self.guard_on():
            self.unguarded.add(s["h"])
            self.unguarded.update(o["h"] for o in s["a"] if "h" in o)
        if s["k"] in ("setitem", "aug", "uout", "setshape") and self.tracking():
            # a recorded in-place update: the target's (new) memory is the output of an operation, too
            self.unguarded.add(s["t"] if "t" in s else s["out"])
            if not self.guard_on():
                # recorded with the guard off: the operands' arrays are not protected either (as for `op` above)
                if isinstance(s.get("val"), dict) and "h" in s["val"]:
                    self.unguarded.add(s["val"]["h"])
                self.unguarded.update(o["h"] for o in s.get("a", []) if isinstance(o, dict) and "h" in o)
        if s["k"] == "op" and self.tracking() and not view:
            # the result of a recorded operation: its memory is not locked until it is consumed, so an UNTRACKED in-place
            # write could change it behind the graph's back (the graph would still differentiate through its creator)
            self.unguarded.add(s["h"])
        if s["k"] in ("op", "leaf"):
            h = s["h"]
            self.nh = h
            self.const[h] = bool(const)
            a = self.np.H[h]
            self.isview[h] = view
            if view:
                self.epoch_views.add(h)
            if not a.flags.writeable:
                self.readonly.add(h)
        return True

    def rand_shape(self):
        r = self.rng
        nd = r.choice([0, 1, 1, 2, 2, 2, 3])
        if nd == 0:
            return []
        while True:
            sh = [r.choice([1, 2, 2, 3, 3, 4]) for _ in range(nd)]
            if int(np.prod(sh)) <= MAXSIZE:
                return sh

    def rand_vals(self, n, nozero=False, distinct=False):
        r = self.rng
        if distinct:
            pool = [R(k) for k in range(-6, 7) if k != 0 or not nozero] + HALVES
            r.shuffle(pool)
            return pool[:n] if n <= len(pool) else [R(k) for k in range(1, n + 1)]
        out = []
        for _ in range(n):
            if r.random() < 0.15:
                out.append(r.choice(HALVES))
            else:
                v = r.choice(VALS)
                if nozero and v == 0:
                    v = 2
                out.append(R(v))
        return out

    def leaf(self, sh=None, const=None, nozero=False, distinct=False):
        sh = self.rand_shape() if sh is None else sh
        n = int(np.prod(sh)) if sh else 1
        if const is None:
            const = self.rng.random() < self.p.get("p_const_leaf", 0.15)
        h = self.new()
        s = {"k": "leaf", "h": h, "sh": list(sh), "v": self.rand_vals(n, nozero, distinct), "const": bool(const)}
        if len(sh) >= 2 and self.rng.random() < self.p.get("p_forder_leaf", 0.0):
            s["order"] = "F"
        x = self.rng.random()
        if x < self.p.get("p_int_leaf", 0.0):
            s["dt"] = "i8"
            s["v"] = [R(self.rng.choice([-3, -2, -1, 0, 1, 2, 3, 4])) for _ in range(n)]
            const = True
        elif x < self.p.get("p_int_leaf", 0.0) + self.p.get("p_f32_leaf", 0.0):
            self.lowprec = True
            s["dt"] = self.rng.choice(["f4", "f4", "f2"])
            s["v"] = [R(self.rng.choice([-3, -2, -1, 0, 1, 2, 3])) for _ in range(n)]
        if not self.emit(s, const=const):
            raise GenSkip()
        return s["h"]

    def rand_mask(self, sh):
        """A boolean mask broadcastable to sh (for `where=` without `out=`)."""
        bsh = list(sh) if self.rng.random() < 0.6 else self.sub_broadcast_shape(sh)
        n = int(np.prod(bsh)) if bsh else 1
        return {"sh": list(bsh), "v": [self.rng.random() < 0.6 for _ in range(n)]}

    def operand_like(self, sh, allow_handle=True):
        """An operand broadcast-compatible with shape sh: existing handle, scalar, const array or new leaf."""
        r = self.rng
        cands = []
        if allow_handle:
            for h in self.live():
                try:
                    np.broadcast_shapes(tuple(sh), self.arr(h).shape)
                    cands.append(h)
                except ValueError:
                    pass
        x = r.random()
        if cands and x < self.p.get("p_hd_operand", 0.0):
            # the ndarray of a live tensor (`t.data`) as a plain operand: a constant sharing the tensor's memory
            fl = [h for h in cands if self.arr(h).dtype.kind == "f"]
            if fl:
                return {"hd": r.choice(fl)}
        if cands and x < 0.55:
            return {"h": r.choice(cands)}
        if x < 0.7:
            return {"s": r.choice([R(2), R(-1), R(3), R(1, 2), R(-2), R(0)])}
        if x < 0.85:
            bsh = self.sub_broadcast_shape(sh)
            n = int(np.prod(bsh)) if bsh else 1
            return {"arr": {"sh": list(bsh), "v": self.rand_vals(n)}}
        return {"h": self.leaf(self.sub_broadcast_shape(sh))}

    def sub_broadcast_shape(self, sh):
        r = self.rng
        sh = list(sh)
        k = r.randint(0, len(sh))
        sub = sh[k:]
        return [1 if (d > 1 and r.random() < 0.3) else d for d in sub]

    # ------------------------------------------------------------------ index expressions
    def basic_index(self, sh, want_view=True):
        r = self.rng
        items = []
        used_ell = False
        for d in sh:
            x = r.random()
            if x < 0.12 and not used_ell:
                items.append({"t": "ell"})
                used_ell = True
                break
            if x < 0.3 and d > 0:
                items.append({"t": "int", "i": r.randint(-d, d - 1)})
            elif x < 0.4:
                items.append({"t": "new"})
                items.append(sl())
            else:
                st = r.choice([None, None, 1, 2, -1, -2])
                lo = r.choice([None, None, 0, 1, -1, -2, d])
                hi = r.choice([None, None, d, d - 1, -1, 1, 0])
                items.append(sl(lo, hi, st))
            if r.random() < 0.15:
                break
        return {"t": "basic", "items": items}

    def adv_index(self, sh):
        r = self.rng
        if not sh or 0 in sh:
            return None
        k = r.randint(1, min(2, len(sh)))
        ish = r.choice([[2], [3], [1], [2, 1], [2, 2]])
        arrs = []
        for ax in range(k):
            s2 = ish if ax == 0 or r.random() < 0.7 else [1]
            n = int(np.prod(s2))
            arrs.append({"sh": list(s2), "v": [r.randint(-sh[ax], sh[ax] - 1) for _ in range(n)]})
        ix = {"t": "adv", "arrs": arrs}
        x = r.random()
        if x < 0.45:
            ix["as"] = r.choice(["list", "tuple", "tensor"])
        elif x < 0.6 and k == 1:
            ix["as"] = "bare"            # the index array itself, not wrapped in a tuple
        elif x < 0.75:
            nonneg = all(v >= 0 for a in arrs for v in a["v"])
            ix["as"] = r.choice(["i4", "i2", "i1"] + (["u1", "u4"] if nonneg else []))
        return ix

    def mask_index(self, sh):
        r = self.rng
        if not sh:
            return None
        m = r.randint(1, len(sh))
        msh = sh[:m]
        n = int(np.prod(msh))
        return {"t": "mask", "m": {"sh": list(msh), "v": [r.random() < 0.5 for _ in range(n)]}}

    # ------------------------------------------------------------------ statement families
    def pick(self, pred=lambda h: True):
        c = [h for h in self.live() if pred(h)]
        return self.rng.choice(c) if c else None

    def res_const(self, ops, kw=None):
        c = (kw or {}).get("constant", "none")
        if c != "none":
            return c == "true"
        return all(self.const[o["h"]] if "h" in o else True for o in ops)

    def maybe_kw_const(self):
        x = self.rng.random()
        pc = self.p.get("p_kw_const", 0.0)
        if x < pc / 2:
            return {"constant": "true"}
        if x < pc:
            return {"constant": "false"}
        return {}

    def gen_functional(self) -> bool:
        r = self.rng
        fam = r.choice(self.p["functional"])
        if self.lowprec and fam in ("power",):
            return False
        a = self.pick()
        if a is None:
            return False
        A = self.arr(a)
        sh = list(A.shape)
        h = self.new()
        kw = self.maybe_kw_const()
        s = None
        if fam == "bin":
            f = r.choice(["add", "subtract", "multiply", "multiply", "add", "divide", "maximum", "minimum"])
            if self.lowprec and f == "divide":
                f = "multiply"
            b = self.operand_like(sh)
            if self.lowprec and f == "divide":
                f = "multiply"      # (the operand just made may be the program's first low-precision leaf)
            ops = [{"h": a}, b]
            if r.random() < 0.5:
                ops = ops[::-1]
            s = {"k": "op", "h": h, "f": f, "a": ops}
            xs = [self.np.opnd(o) for o in ops]
            if f == "divide" and np.any(np.asarray(xs[1]) == 0):
                return False
            if f in ("maximum", "minimum"):
                try:
                    if np.any(np.asarray(xs[0]) == np.asarray(xs[1])):
                        return False
                except ValueError:
                    return False
            if f != "divide" and r.random() < self.p.get("p_where_mask", 0.0):
                s["wm"] = self.rand_mask(list(np.broadcast_shapes(*[np.shape(x) for x in xs])))
        elif fam == "un":
            f = r.choice(["negative", "square", "abs", "positive", "reciprocal", "relu"])
            if self.lowprec and f == "reciprocal":
                f = "negative"
            if f in ("abs", "reciprocal", "relu") and np.any(A == 0):
                return False
            if f in ("reciprocal", "relu") and A.dtype.kind in "iub":
                return False  # integer reciprocal truncates: outside the exact (rational) fragment
            s = {"k": "op", "h": h, "f": f, "a": [{"h": a}]}
            ops = s["a"]
            if f in ("negative", "square", "abs", "positive") and r.random() < self.p.get("p_where_mask", 0.0):
                s["wm"] = self.rand_mask(sh)
        elif fam == "power":
            pw = r.choice([2, 3, -1, 0, 1, -2])
            if pw < 0 and np.any(A == 0):
                return False
            s = {"k": "op", "h": h, "f": "power", "a": [{"h": a}], "p": pw}
            ops = s["a"]
        elif fam == "red":
            f = r.choice(["sum", "sum", "mean", "prod", "max", "min", "var"])
            if self.lowprec and f in ("mean", "var"):
                f = "sum"
            k = {}
            nd = A.ndim
            x = r.random()
            if nd and x < 0.6:
                naxes = r.randint(1, nd)
                axes = r.sample(range(nd), naxes)
                axes = [ax - nd if r.random() < 0.3 else ax for ax in axes]
                if f in ("max", "min", "prod") or len(axes) > 1 or r.random() < 0.3:
                    k["axis_tuple"] = True
                k["axis"] = axes
            elif x < 0.65:
                k["axis"] = []
                k["axis_tuple"] = True
            if r.random() < 0.35:
                k["keepdims"] = True
            if f == "var" and r.random() < 0.4:
                k["ddof"] = 1
            if f in ("max", "min") and len(np.unique(A)) < A.size:
                return False
            if A.size == 0:
                return False
            if f == "var":
                # the reduced group must hold more than ddof items
                red = A.size if "axis" not in k else int(np.prod([A.shape[ax] for ax in k["axis"]]))
                if red - k.get("ddof", 0) <= 0:
                    return False
            kw.update(k)
            s = {"k": "op", "h": h, "f": f, "a": [{"h": a}]}
            ops = s["a"]
        elif fam == "matmul" and A.ndim in (1, 2) and A.size and not self.lowprec and r.random() < 0.3:
            # multi_matmul: a chain of three or four operands; both ends 2-D or both 1-D (with exactly one 1-D end the result
            # is a view of a tensor the program cannot name: those are cells of OpTable only)
            n_ops = r.choice([3, 3, 4])
            pos = r.randrange(n_ops) if A.ndim == 2 else r.choice([0, n_ops - 1])
            ends1d = A.ndim == 1 or (0 < pos < n_ops - 1 and r.random() < 0.3)
            dims = [r.choice([1, 2, 3]) for _ in range(n_ops + 1)]
            if A.ndim == 2:
                dims[pos], dims[pos + 1] = A.shape
            elif pos == 0:
                dims[1] = A.shape[0]
            else:
                dims[n_ops - 1] = A.shape[0]
            ops = []
            for i in range(n_ops):
                if i == pos:
                    ops.append({"h": a})
                    continue
                shp = [dims[1]] if (i == 0 and ends1d) else [dims[n_ops - 1]] if (i == n_ops - 1 and ends1d) else [dims[i], dims[i + 1]]
                x = r.random()
                cands = [q for q in self.live() if list(self.arr(q).shape) == shp and self.arr(q).dtype.kind == "f"
                         and self.arr(q).dtype.itemsize == 8]
                if x < 0.25:
                    ops.append({"arr": {"sh": shp, "v": self.rand_vals(int(np.prod(shp)))}})
                elif cands and x < 0.6:
                    ops.append({"h": r.choice(cands)})
                else:
                    ops.append({"h": self.leaf(shp)})
            if any(np.asarray(self.np.opnd(o)).dtype.kind != "f" for o in ops):
                # (integer operands: with constant=False MyGrad refuses an integer INTERMEDIATE product although the chain's
                #  result is float - left out of the programs)
                return False
            s = {"k": "op", "h": h, "f": "multimatmul", "a": ops}
        elif fam == "matmul":
            if A.ndim == 0:
                return False
            kdim = A.shape[-1]
            x = r.random()
            if x < 0.4:
                bsh = [kdim]
            elif x < 0.8:
                bsh = [kdim, r.choice([1, 2, 3])]
            else:
                bsh = [r.choice([1, 2]), kdim, r.choice([1, 2])]
                if A.ndim == 3 and A.shape[0] not in (1, bsh[0]):
                    bsh[0] = A.shape[0]
            cands = [q for q in self.live() if list(self.arr(q).shape) == bsh]
            if cands and r.random() < 0.5:
                b = {"h": r.choice(cands)}
            else:
                b = {"h": self.leaf(bsh)}
            ops = [{"h": a}, b]
            s = {"k": "op", "h": h, "f": "matmul", "a": ops}
        elif fam == "where":
            b = self.operand_like(sh)
            try:
                full = np.broadcast_shapes(tuple(sh), np.shape(self.np.opnd(b)))
            except ValueError:
                return False
            csh = self.sub_broadcast_shape(list(full))
            n = int(np.prod(csh)) if csh else 1
            s = {"k": "op", "h": h, "f": "where", "a": [{"h": a}, b],
                 "cond": {"sh": list(csh), "v": [r.random() < 0.5 for _ in range(n)]}}
            if r.random() < 0.3:
                s["cs"] = r.choice(["i8", "i1", "f8"])     # the condition as a 0/1 array of another dtype
            ops = s["a"]
        elif fam == "join":
            if A.ndim == 0:
                return False
            f = r.choice(["concatenate", "stack"])
            ax = r.randint(0, A.ndim - 1 if f == "concatenate" else A.ndim)
            others = []
            for _ in range(r.randint(1, 2)):
                if f == "stack":
                    c = [q for q in self.live() if self.arr(q).shape == A.shape]
                else:
                    c = [q for q in self.live() if self.arr(q).ndim == A.ndim and all(
                        self.arr(q).shape[d] == A.shape[d] for d in range(A.ndim) if d != ax)]
                others.append({"h": r.choice(c)})
            ops = [{"h": a}] + others
            r.shuffle(ops)
            s = {"k": "op", "h": h, "f": f, "a": ops, "axis": ax if r.random() < 0.7 else ax - (A.ndim + (f == "stack"))}
        elif fam == "act":
            if A.dtype.kind != "f" or self.lowprec:
                return False
            f = r.choice(["leaky_relu", "hard_tanh", "soft_sign", "clip"])
            s = {"k": "op", "h": h, "f": f, "a": [{"h": a}]}
            if f == "leaky_relu":
                s["p1"] = r.choice([R(1, 2), R(0), R(2), R(-1)])
            elif f in ("hard_tanh", "clip"):
                s["p1"], s["p2"] = r.choice([(R(-1), R(1)), (R(-2), R(3)), (R(-1, 2), R(5, 2))])
            ops = s["a"]
            kw = {k: v for k, v in kw.items() if k == "constant"} if f != "clip" else {}
        elif fam == "cum":
            if A.size == 0 or A.size > 6 or self.lowprec:
                return False
            f = r.choice(["cumsum", "cumprod"])
            k = {}
            if A.ndim and r.random() < 0.7:
                k["axis"] = [r.randint(-A.ndim, A.ndim - 1)]
            kw.update(k)
            s = {"k": "op", "h": h, "f": f, "a": [{"h": a}]}
            ops = s["a"]
        elif fam == "seq":
            f = r.choice(["addseq", "mulseq"])
            ops = [{"h": a}] + [self.operand_like(sh) for _ in range(r.randint(1, 2))]
            r.shuffle(ops)
            s = {"k": "op", "h": h, "f": f, "a": ops}
        elif fam == "einsum":
            if A.ndim not in (1, 2) or A.size == 0 or self.lowprec:
                return False
            if A.ndim == 2:
                m, n = A.shape
                pat = r.choice(["ij,jk->ik", "ij,jk->ki", "ij,ij->", "ij,ij->i", "ij,j->i", "ij->i", "ij->", "ij,ij->j(self)"])
                if pat in ("ij,jk->ik", "ij,jk->ki"):
                    b = {"h": self.leaf([n, r.choice([1, 2])])}
                    ops, subs, out = [{"h": a}, b], [[0, 1], [1, 2]], ([0, 2] if pat.endswith("ik") else [2, 0])
                elif pat in ("ij,ij->", "ij,ij->i"):
                    c = [q for q in self.live() if self.arr(q).shape == A.shape]
                    x2 = r.random()
                    if x2 < 0.2:
                        b = {"h": self.leaf([1, n])}
                    elif x2 < 0.35 and A.dtype.kind == "f":
                        b = {"hd": a}                                         # x together with x.data
                    else:
                        b = {"h": r.choice(c)}
                    ops, subs, out = [{"h": a}, b], [[0, 1], [0, 1]], ([] if pat.endswith("->") else [0])
                elif pat == "ij,j->i":
                    b = {"h": self.leaf([n if r.random() < 0.7 else 1])}      # (a length-1 axis broadcasts)
                    ops, subs, out = [{"h": a}, b], [[0, 1], [1]], [0]
                elif pat == "ij,ij->j(self)":
                    ops, subs, out = [{"h": a}, {"h": a}], [[0, 1], [0, 1]], [1]
                else:
                    ops, subs, out = [{"h": a}], [[0, 1]], ([0] if pat == "ij->i" else [])
            else:
                pat = r.choice(["i,i->", "i,j->ij", "i,j->ji", "i,i->i"])
                if pat in ("i,i->", "i,i->i"):
                    c = [q for q in self.live() if self.arr(q).shape == A.shape]
                    ops, subs, out = [{"h": a}, {"h": r.choice(c)}], [[0], [0]], ([] if pat == "i,i->" else [0])
                else:
                    b = {"h": self.leaf([r.choice([1, 2, 3])])}
                    ops, subs, out = [{"h": a}, b], [[0], [1]], ([0, 1] if pat == "i,j->ij" else [1, 0])
            if r.random() < 0.3 and len(ops) == 2:
                ops, subs = ops[::-1], subs[::-1]
            s = {"k": "op", "h": h, "f": "einsum", "a": ops, "subs": subs, "out": out}
        elif fam == "conv":
            if self.lowprec:
                return False
            nd = r.choice([1, 1, 2])
            if A.ndim == nd + 2 and all(d >= 2 for d in A.shape[2:]):
                xh, xs = a, list(A.shape)
            else:
                xs = [r.choice([1, 2]), r.choice([1, 2])] + ([r.choice([3, 4])] if nd == 1 else [2, 3])
                xh = self.leaf(xs)
            ks = [r.choice([1, 2]) for _ in range(nd)]
            dl = [r.choice([1, 1, 2]) if k > 1 else 1 for k in ks]
            pd = [r.choice([0, 0, 1]) for _ in range(nd)]
            st = []
            for j in range(nd):
                span = xs[2 + j] + 2 * pd[j] - ((ks[j] - 1) * dl[j] + 1)
                # (the stricter k*d <= x guard of sliding_window_view is known finding F-C16-1: stay inside it)
                if span < 0 or ks[j] * dl[j] > xs[2 + j] + 2 * pd[j]:
                    return False
                st.append(r.choice([q for q in (1, 2, 3) if span % q == 0]))
            wh = self.leaf([r.choice([1, 2]), xs[1]] + ks)
            ops = [{"h": xh}, {"h": wh}]
            s = {"k": "op", "h": h, "f": "conv", "a": ops, "stride": st, "pad": pd, "dil": dl}
        elif fam == "pool":
            if A.ndim < 1 or A.shape[-1] < 2 or A.size == 0 or A.dtype.kind != "f":
                return False
            pl = [2]
            st = [r.choice([q for q in (1, 2) if (A.shape[-1] - 2) % q == 0])]
            # every window needs a unique maximum (the sub-gradient at ties is not part of the property)
            for o in range(0, A.shape[-1] - 1, st[0]):
                w = A[..., o:o + 2]
                if np.any(w[..., 0] == w[..., 1]):
                    return False
            s = {"k": "op", "h": h, "f": "maxpool", "a": [{"h": a}], "pool": pl, "stride": st}
            ops = s["a"]
        elif fam == "loss":
            if A.size == 0 or A.dtype.kind != "f" or self.lowprec:
                return False
            if A.ndim == 2 and r.random() < 0.5:
                s = {"k": "op", "h": h, "f": "multiclass_hinge", "a": [{"h": a}],
                     "y": [r.randint(0, A.shape[1] - 1) for _ in range(A.shape[0])], "hinge": r.choice([R(1), R(2), R(1, 2)])}
                ops = s["a"]
            elif A.ndim in (1, 2):
                c = [q for q in self.live() if self.arr(q).shape == A.shape and self.arr(q).dtype.kind == "f"]
                ops = [{"h": a}, {"h": r.choice(c)}]
                r.shuffle(ops)
                s = {"k": "op", "h": h, "f": "margin_ranking", "a": ops, "y": {"sh": [], "v": [r.choice([R(1), R(-1)])]},
                     "margin": r.choice([R(1), R(0), R(1, 2), R(3)])}
            else:
                return False
        elif fam == "gathercopy":
            f = r.choice(["flatten", "repeat", "roll", "getitem_adv", "getitem_mask", "getitem_int"])
            if f == "flatten":
                s = {"k": "op", "h": h, "f": "flatten", "a": [{"h": a}]}
            elif f == "repeat":
                if A.ndim == 0:
                    return False
                s = {"k": "op", "h": h, "f": "repeat", "a": [{"h": a}], "r": r.choice([1, 2, 3]), "axis": r.randint(-A.ndim, A.ndim - 1)}
            elif f == "roll":
                if A.ndim == 0:
                    return False
                s = {"k": "op", "h": h, "f": "roll", "a": [{"h": a}], "shift": r.choice([1, -1, 2, 0, 5]), "axis": r.randint(-A.ndim, A.ndim - 1)}
            elif f == "getitem_adv":
                ix = self.adv_index(sh)
                if ix is None:
                    return False
                s = {"k": "op", "h": h, "f": "getitem", "a": [{"h": a}], "ix": ix}
            elif f == "getitem_mask":
                ix = self.mask_index(sh)
                if ix is None:
                    return False
                s = {"k": "op", "h": h, "f": "getitem", "a": [{"h": a}], "ix": ix}
            else:
                if A.size == 0:
                    return False
                if A.ndim == 0:
                    ix = {"t": "basic", "items": []}
                else:
                    ix = {"t": "basic", "items": [{"t": "int", "i": r.randint(-d, d - 1)} for d in sh]}
                s = {"k": "op", "h": h, "f": "getitem", "a": [{"h": a}], "ix": ix}
            ops = s["a"]
            kw = {}
        if s is None:
            return False
        if kw:
            s["kw"] = kw
        # spelling (C11 inside the history checks): operators / methods must behave like the library function
        if not kw and s["f"] in ("add", "subtract", "multiply", "divide", "matmul", "negative", "positive", "power") \
                and r.random() < self.p.get("p_operator", 0.3):
            s["sp"] = "op"
        elif s["f"] in ("sum", "mean", "prod", "max", "min", "var") and "constant" not in kw \
                and r.random() < self.p.get("p_operator", 0.3):
            s["sp"] = "method"
        ok = self.emit(s, const=self.res_const(ops, kw))
        if not ok:
            pass
        return ok

    def gen_view(self) -> bool:
        r = self.rng
        a = self.pick()
        if a is None:
            return False
        A = self.arr(a)
        sh = list(A.shape)
        nd = A.ndim
        h = self.new()
        f = r.choice(self.p.get("views", ["getitem", "getitem", "reshape", "T", "transpose", "swapaxes", "moveaxis",
                                           "squeeze", "expand_dims", "ravel", "diag", "broadcast_to", "atleast"]))
        s = {"k": "op", "h": h, "f": f, "a": [{"h": a}]}
        if f == "getitem":
            s["ix"] = self.basic_index(sh)
        elif f == "reshape":
            n = A.size
            opts = [[n], [-1], [1, n], [n, 1]] + [[d, n // d] for d in (2, 3) if n % d == 0] + [[d, -1] for d in (2, 3) if n % d == 0]
            if n % 4 == 0:
                opts.append([2, 2, n // 4])
            if n == 1:
                opts.append([])
            s["sh"] = r.choice(opts)
        elif f == "transpose":
            if r.random() < 0.3:
                pass
            else:
                axes = list(range(nd))
                r.shuffle(axes)
                s["axes"] = [ax - nd if r.random() < 0.2 else ax for ax in axes]
        elif f == "swapaxes":
            if nd < 1:
                pass
                return False
            s["a1"] = r.randint(-nd, nd - 1)
            s["a2"] = r.randint(-nd, nd - 1)
        elif f == "moveaxis":
            if nd < 1:
                pass
                return False
            s["src"] = [r.randint(-nd, nd - 1)]
            s["dst"] = [r.randint(-nd, nd - 1)]
        elif f == "squeeze":
            ones = [i for i, d in enumerate(sh) if d == 1]
            if not ones and r.random() < 0.8:
                return False  # a squeeze with nothing to squeeze is known finding F-C04-1: keep it rare
            if ones and r.random() < 0.6:
                s["axis"] = [r.choice(ones)]
        elif f == "expand_dims":
            s["axis"] = r.randint(-(nd + 1), nd)
        elif f == "diag":
            if nd != 2 or sh[0] != sh[1]:
                pass
                return False
        elif f == "atleast":
            nds = [k for k in (1, 2, 3) if k > nd]     # only requests that really add axes (else: F-C04-1 territory)
            if not nds:
                return False
            s["nd"] = r.choice(nds)
        elif f == "broadcast_to":
            # stretch axes of length 1 (inner ones too) and/or prepend an axis
            tgt = [r.choice([2, 3]) if (d == 1 and r.random() < 0.7) else d for d in sh]
            if r.random() < 0.5 or tgt == sh:
                tgt = [r.choice([1, 2])] + tgt
            if int(np.prod(tgt)) > MAXSIZE:
                return False
            s["sh"] = tgt
        vc = self.const[a]
        if f in ("reshape", "transpose", "swapaxes", "squeeze", "expand_dims", "ravel", "moveaxis", "atleast") and \
                r.random() < self.p.get("p_kw_const_view", 0.0) and A.dtype.kind == "f":
            flag = r.choice(["true", "false"])
            s["kw"] = {"constant": flag}
            vc = flag == "true"
        ok = self.emit(s, const=vc, view=True)
        if ok:
            h = s["h"]
            res = self.arr(h)
            self.isview[h] = bool(np.shares_memory(res, A)) or res.base is not None
        else:
            pass
        return ok

    def gen_inplace(self, t=None) -> bool:
        r = self.rng
        if t is None:
            t = self.pick(lambda h: h not in self.readonly and self.arr(h).flags.writeable)
        elif t not in self.np.H or t in self.readonly or not self.arr(t).flags.writeable:
            return False
        if t is None:
            return False
        if not self.tracking() and any(np.shares_memory(self.arr(t), self.arr(u)) for u in self.unguarded if u in self.np.H):
            # writing, untracked, into memory that belongs to a graph recorded with the guard off: the user
            # switched both protections off - outside every property
            return False
        T = self.arr(t)
        sh = list(T.shape)
        if T.dtype.kind in "iub":
            return False  # writing fractions into integer memory truncates: outside the exact (rational) fragment
        kind = r.choice(self.p.get("inplace", ["setitem", "setitem", "aug", "uout"]))
        if kind == "setshape":
            if any(q != t and self.np.H[q] is T for q in self.np.H):
                return False  # NumPy handed the same array object to two handles (no-op squeeze): F-C04-1 territory
            if t in self.disconnected:
                # a view carried over from an earlier epoch: MyGrad gives it memory of its own (compact) at its first update,
                # the twin's array stays a strided view - what `.shape` accepts differs from then on (outside C04's epoch)
                return False
            n = T.size
            opts = [[n], [-1], [1, n], [n, 1]] + [[d, n // d] for d in (2, 3) if n and n % d == 0]
            s = {"k": "setshape", "t": t, "sh": r.choice(opts)}
            try:
                probe = T.view()
                probe.shape = tuple(s["sh"])
            except Exception:
                # memory not laid out so that NumPy can re-shape it without copying: a failing statement (C04/C13)
                s["fail"] = True
                self.prog.append(s)
                return True
            return self.emit(s)
        if kind == "setitem":
            x = r.random()
            if x < 0.6:
                ix = self.basic_index(sh)
            elif x < 0.8:
                ix = self.adv_index(sh) or self.basic_index(sh)
            else:
                ix = self.mask_index(sh) or self.basic_index(sh)
            try:
                from .stmts import dec_index

                ish = list(T[dec_index(ix)].shape)
            except Exception:
                return False
            val = self.operand_like(ish)
            if self.const[t] and "h" in val and not self.const[val["h"]] and not self.p.get("const_target_nonconst_value", True):
                return False
            s = {"k": "setitem", "t": t, "ix": ix, "val": val}
        elif kind == "aug":
            f = r.choice(["add", "subtract", "multiply", "divide"])
            if self.lowprec and f == "divide":
                f = "multiply"      # low-precision quotients leave the exact fragment
            val = self.operand_like(sh)
            if self.lowprec and f == "divide":
                f = "multiply"      # (the operand just made may be the program's first low-precision leaf)
            v = np.asarray(self.np.opnd(val))
            if f == "divide" and np.any(v == 0):
                return False
            try:
                if np.broadcast_shapes(tuple(sh), v.shape) != tuple(sh):
                    return False
            except ValueError:
                return False
            s = {"k": "aug", "t": t, "f": f, "val": val}
        else:
            f = r.choice(["add", "multiply", "subtract", "negative", "square", "maximum"])
            if f in ("negative", "square"):
                ops = [self.operand_like(sh)]
            else:
                ops = [self.operand_like(sh), self.operand_like(sh)]
            try:
                xs = [np.asarray(self.np.opnd(o)) for o in ops]
                if np.broadcast_shapes(tuple(sh), *[x.shape for x in xs]) != tuple(sh):
                    return False
                if f == "maximum" and np.any(xs[0] == xs[1]):
                    return False
            except ValueError:
                return False
            s = {"k": "uout", "f": f, "a": ops, "out": t}
            if r.random() < self.p.get("p_kw_const_out", 0.0):
                s["kw"] = {"constant": r.choice(["true", "false"])}
            if r.random() < 0.5:
                msh = self.sub_broadcast_shape(sh)
                n = int(np.prod(msh)) if msh else 1
                s["where"] = {"sh": list(msh), "v": [r.random() < 0.6 for _ in range(n)]}
                if not msh and not s["where"]["v"][0] and r.random() < 0.6:
                    # the mask False spelled as a Python bool (the specification does not see the spelling; the Python bool
                    # True, however, MEANS "no mask": the old contents are not an input at all, so it is not a spelling)
                    s["wsp"] = "py"
            elif r.random() < 0.15:
                s["where"] = {"sh": [], "v": [False]}
                s["wsp"] = "py"
        return self.emit(s)

    def terminal(self, scalar=True):
        """L = sum_i sum(h_i * w_i) over a few live handles, with distinct weights so gradients are informative."""
        r = self.rng
        hs = [h for h in self.live()]
        pick = r.sample(hs, min(len(hs), r.randint(1, 3)))
        if self.must_use in hs and self.must_use not in pick:
            pick.append(self.must_use)
        self.must_use = None
        acc = None
        for h in pick:
            A = self.arr(h)
            n = A.size
            w = {"arr": {"sh": list(A.shape), "v": [R(((i * 2) % 5) - 2 if (i % 5) != 2 else 3) for i in range(n)]}}
            s1 = {"k": "op", "h": 0, "f": "multiply", "a": [{"h": h}, w]}
            if not self.emit(s1, const=self.const[h]):
                continue
            s2 = {"k": "op", "h": 0, "f": "sum", "a": [{"h": s1["h"]}]}
            if not self.emit(s2, const=self.const[h]):
                continue
            sm = s2["h"]
            if acc is None:
                acc = sm
            else:
                s3 = {"k": "op", "h": 0, "f": "add", "a": [{"h": acc}, {"h": sm}]}
                if self.emit(s3, const=self.const[acc] and self.const[sm]):
                    acc = s3["h"]
        return acc

    def backward(self, h, seed=None, kind=None):
        s = {"k": "backward", "h": h}
        if seed is not None:
            s["seed"] = seed
            if kind:
                s["seed_kind"] = kind
            if "arr" in seed and len(seed["arr"]["sh"]) >= 2 and kind is None and self.rng.random() < 0.35:
                s["seed_order"] = "F"      # the caller's gradient array is Fortran-ordered (the specification does not care)
            elif "arr" in seed and kind is None and self.rng.random() < self.p.get("p_seed_view", 0.0):
                # the caller's gradient arrays are slices of ONE buffer the caller owns (the specification does not care)
                s["seed_view"] = True
        self.prog.append(s)

    def rand_seed(self, sh, bad=False):
        """A seed gradient for a terminal of shape sh: scalar / broadcastable array / full array (or a bad one)."""
        r = self.rng
        if bad:
            cands = [[d + 1 for d in sh] if sh else [2], list(sh) + [2], [2, 3, 2, 2]]
            if sh and sh[-1] == 1:
                cands.append(list(sh[:-1]) + [3])  # would broadcast the TERMINAL instead: must be rejected too
            bsh = r.choice(cands)
            n = int(np.prod(bsh))
            return {"arr": {"sh": list(bsh), "v": [R(r.choice([1, 2, -1])) for _ in range(n)]}}, None
        x = r.random()
        if x < 0.25:
            return {"s": r.choice([R(2), R(-1), R(1, 2), R(3)])}, r.choice([None, "pyscalar"])
        bsh = list(sh) if x < 0.6 else self.sub_broadcast_shape(sh)
        n = int(np.prod(bsh)) if bsh else 1
        return ({"arr": {"sh": list(bsh), "v": [R(r.choice([1, 2, -1, 3, 0, -2])) for _ in range(n)]}},
                r.choice([None, None, "tensor"]))

    def gen_misc(self) -> bool:
        """clear_graph / null_grad / copy / failing statements, as the profile allows."""
        r = self.rng
        kinds = self.p.get("misc", [])
        if not kinds:
            return False
        k = r.choice(kinds)
        h = self.pick()
        if h is None:
            return False
        if k in ("clear", "nullgrad"):
            self.prog.append({"k": k, "h": h})
            if k == "clear":
                self.end_epoch_drop_views()
            return True
        if k == "copy":
            s = {"k": "copy", "h": 0, "a": [{"h": h}]}
            self.nh_assign(s)
            self.np.H[s["h"]] = np.copy(self.arr(h))
            self.prog.append(s)
            self.const[s["h"]] = self.const[h]
            self.isview[s["h"]] = False
            return True
        if k == "fail":
            return self.gen_failing()
        return False

    def nh_assign(self, s):
        s["h"] = self.nh + 1
        self.nh += 1

    def gen_failing(self) -> bool:
        """A statement built to raise in NumPy (and therefore in MyGrad): it must leave no trace (C13)."""
        r = self.rng
        a = self.pick(lambda h: self.arr(h).ndim >= 1 and self.arr(h).size > 0)
        if a is None:
            return False
        A = self.arr(a)
        sh = list(A.shape)
        kind = r.choice(["bin", "axis", "getitem", "setitem", "aug", "reshape", "matmul", "setitem_view", "setshape", "setshape", "clipout"])
        h = self.nh + 1
        if kind == "bin":
            bad = [d + 1 if d > 1 else 3 for d in sh]
            s = {"k": "op", "h": h, "f": r.choice(["add", "multiply", "subtract"]),
                 "a": [{"h": a}, {"arr": {"sh": bad, "v": [R(1)] * int(np.prod(bad))}}]}
        elif kind == "axis":
            s = {"k": "op", "h": h, "f": r.choice(["sum", "mean", "max"]), "a": [{"h": a}], "kw": {"axis": [A.ndim + 1]}}
        elif kind == "getitem":
            s = {"k": "op", "h": h, "f": "getitem", "a": [{"h": a}], "ix": {"t": "basic", "items": [{"t": "int", "i": sh[0] + 2}]}}
        elif kind in ("setitem", "setitem_view"):
            t = a
            if kind == "setitem_view":
                c = [q for q in self.live() if self.isview.get(q) and self.arr(q).ndim >= 1 and self.arr(q).size > 0
                     and self.arr(q).flags.writeable]
                if not c:
                    return False
                t = r.choice(c)
            tsh = list(self.arr(t).shape)
            if r.random() < 0.5:
                s = {"k": "setitem", "t": t, "ix": {"t": "basic", "items": [{"t": "int", "i": tsh[0] + 1}]}, "val": {"s": R(1)}}
            else:
                bad = [d + 2 for d in tsh]
                s = {"k": "setitem", "t": t, "ix": {"t": "basic", "items": [{"t": "ell"}]},
                     "val": {"arr": {"sh": bad, "v": [R(1)] * int(np.prod(bad))}}}
        elif kind == "setshape":
            # a shape NumPy cannot give the array without copying (e.g. flattening a transposed view), or of the wrong size
            c = [q for q in self.live() if self.arr(q).ndim >= 2 and self.arr(q).size > 1 and q not in self.disconnected
                 and not any(z != q and self.np.H[z] is self.arr(q) for z in self.np.H)]
            if not c:
                return False
            nc = [q for q in c if not self.arr(q).flags.c_contiguous]
            if nc and r.random() < 0.85:
                # flattening memory that is not laid out in C order: NumPy refuses (it would have to copy)
                t = r.choice(nc)
                s = {"k": "setshape", "t": t, "sh": r.choice([[self.arr(t).size], [-1], [1, self.arr(t).size]])}
            else:
                t = r.choice(c)
                s = {"k": "setshape", "t": t, "sh": r.choice([[self.arr(t).size], [-1], [self.arr(t).size + 1]])}
        elif kind == "clipout":
            # a two-step function writing into out=: the SECOND bound does not broadcast - nothing may have been written
            c = [q for q in self.live() if list(self.arr(q).shape) == sh and q != a and q not in self.readonly
                 and self.arr(q).flags.writeable and self.arr(q).dtype.kind == "f" and not self.const[q]]
            if not c or A.dtype.kind != "f":
                return False
            bad = [d + 2 for d in sh]
            s = {"k": "uout", "f": "clip", "a": [{"h": a}, {"s": R(-1)}, {"arr": {"sh": bad, "v": [R(1)] * int(np.prod(bad))}}],
                 "out": r.choice(c)}
        elif kind == "aug":
            bad = [d + 2 for d in sh]
            s = {"k": "aug", "t": a, "f": "add", "val": {"arr": {"sh": bad, "v": [R(1)] * int(np.prod(bad))}}}
        elif kind == "reshape":
            s = {"k": "op", "h": h, "f": "reshape", "a": [{"h": a}], "sh": [A.size + 1]}
        else:
            bad = [sh[-1] + 1, 2]
            s = {"k": "op", "h": h, "f": "matmul", "a": [{"h": a}, {"arr": {"sh": bad, "v": [R(1)] * int(np.prod(bad))}}]}
        # it must fail on the twin (on a scratch copy of the twin's arrays for in-place kinds)
        import copy as _copy

        probe = Exec("np")
        if s["k"] == "setshape":
            probe.H = {q: v.view() for q, v in self.np.H.items()}   # same strides; a new shape on the view object only
        else:
            probe.H = {q: v.copy() for q, v in self.np.H.items()}
        try:
            with np.errstate(all="ignore"):
                probe.run(s)
            return False
        except Exception:
            pass
        s["fail"] = True
        self.prog.append(s)
        return True

    def tracking(self):
        return not any(m == "no_autodiff" for m, _ in self.scopes)

    def guard_on(self):
        g = True
        for m, _ in self.scopes:
            if m == "mem_guard_off":
                g = False
            elif m == "mem_guard_on":
                g = True
        return g

    # ------------------------------------------------------------------ scopes (C15)
    def enter_scope(self, m):
        self.prog.append({"k": "enter", "m": m})
        self.scopes.append((m, set(self.np.H.keys())))

    def exit_scope(self):
        m, before = self.scopes.pop()
        self.prog.append({"k": "exit", "m": m})
        if m == "no_autodiff":
            # tensors created without tracking that alias other tensors are two "leaves" over one memory:
            # outside the reference's notion of a derivative w.r.t. a tensor's value -> dropped on exit
            for h in sorted(set(self.np.H.keys()) - before):
                if self.np.H[h].base is not None or any(
                        o != h and np.shares_memory(self.np.H[h], self.np.H[o]) for o in self.np.H):
                    self.prog.append({"k": "drop", "h": h})
                    del self.np.H[h]
                    self.epoch_views.discard(h)

    def end_epoch_drop_views(self):
        """Views do not survive an epoch boundary - except (profile switches) `stale` ones, which are kept, observed and
        null_grad-ed but never used again, and `reused` ones, which the program goes on using."""
        for h in sorted(self.stale):          # stale views of the previous epoch go now
            if h in self.np.H:
                self.prog.append({"k": "drop", "h": h})
                del self.np.H[h]
        self.stale.clear()
        reused = None
        for h in sorted(self.epoch_views):
            if h in self.np.H:
                if self.rng.random() < self.p.get("p_keep_stale", 0.0):
                    A_ = self.np.H[h]
                    selfoverlap = any(st_ == 0 and d > 1 for st_, d in zip(A_.strides, A_.shape))
                    # (a broadcast view is not eligible: detached, its elements alias each other - a leaf whose
                    #  "value" has fewer degrees of freedom than elements)
                    # (nor is a view that was taken with the memory guard off: if its base was locked at that moment the view's
                    #  array was born read-only and nobody tracks it - an in-place update through it is refused for good)
                    if reused is None and not selfoverlap and h not in self.unguarded \
                            and self.rng.random() < self.p.get("p_reuse_stale", 0.0):
                        # ONE disconnected view of the epoch that ended goes on being used (as an operand, as the parent
                        # of new views): its base lingers until its next use, then it is a base of its own.  Every other
                        # tensor over the same memory is retired (observed, never used again): a detached view and its
                        # former family are independent leaves over one memory, for which "the derivative with respect
                        # to the tensor's value" has no reading at the reference level.
                        reused = h
                        self.disconnected.add(h)
                        self.fresh_reused = h
                        continue
                    self.stale.add(h)
                    if self.rng.random() < 0.5:
                        self.prog.append({"k": "nullgrad", "h": h})
                    continue
                self.prog.append({"k": "drop", "h": h})
                del self.np.H[h]
        if reused is not None:
            R_ = self.np.H[reused]
            for q in list(self.np.H):
                if q != reused and q not in self.stale and np.shares_memory(self.np.H[q], R_):
                    self.stale.add(q)
        self.epoch_views.clear()
        # (self.unguarded is NOT cleared: a tensor recorded with the guard off may not have been part of the graph that
        #  this epoch's backward released - its unprotected graph lives on)


def gen_program(seed: int, profile: dict) -> list[dict]:
    rng = random.Random(seed)
    g = Gen(rng, profile)
    for _ in range(rng.randint(1, profile.get("max_leaves", 2))):
        g.leaf()
    if rng.random() < profile.get("p_layout_probe", 0.0):
        # a Fortran-ordered leaf seen through a reshape-type view of its transpose (a view only because of that layout), and
        # used twice by one operation: its gradient is accumulated from contributions of different memory layouts and must
        # still be laid out like the leaf for the view's gradient to be a view of it
        try:
            x = g.leaf([rng.choice([2, 3]), rng.choice([2, 3])], const=False)
            if g.prog[-1].get("dt") is None:
                g.prog[-1]["order"] = "F"
                g.np.H[x] = np.asfortranarray(g.np.H[x])
                s1 = {"k": "op", "h": 0, "f": "T", "a": [{"h": x}]}
                if g.emit(s1, const=False, view=True):
                    s2 = {"k": "op", "h": 0, "f": rng.choice(["ravel", "reshape"]), "a": [{"h": s1["h"]}]}
                    if s2["f"] == "reshape":
                        s2["sh"] = [-1]
                    g.emit(s2, const=False, view=True)
                f = rng.choice(["multiply", "add", "subtract"])
                s3 = {"k": "op", "h": 0, "f": f, "a": [{"h": x}, {"h": x}]}
                if g.emit(s3, const=False):
                    g.must_use = s3["h"]
        except GenSkip:
            pass
    n_epochs = rng.randint(1, profile.get("max_epochs", 1))
    for ep in range(n_epochs):
        steps = rng.randint(profile.get("min_steps", 2), profile.get("max_steps", 7))
        tries = 0
        done = 0
        if g.fresh_reused is not None and profile.get("w_inplace", 0.2) > 0 and rng.random() < profile.get("p_update_carried", 0.0):
            # the view carried over from the epoch that just ended is updated in place before anything else uses it
            try:
                done += bool(g.gen_inplace(g.fresh_reused))
            except GenSkip:
                pass
        g.fresh_reused = None
        while done < steps and tries < steps * 6:
            tries += 1
            x = rng.random()
            wf, wv, wi = profile.get("w_func", 0.5), profile.get("w_view", 0.3), profile.get("w_inplace", 0.2)
            tot = wf + wv + wi
            if profile.get("p_scope") and not g.tracking() and rng.random() < 0.12:
                h = g.pick()
                if h is not None:
                    g.prog.append({"k": "backward", "h": h})   # inside no_autodiff: must do nothing at all
                continue
            ps = profile.get("p_scope", 0.0)
            if ps and rng.random() < ps:
                if g.scopes and rng.random() < 0.5:
                    g.exit_scope()
                elif len(g.scopes) < 3:
                    g.enter_scope(rng.choice(profile.get("scopes", ["no_autodiff", "no_autodiff", "mem_guard_off", "mem_guard_on"])))
                continue
            wm = profile.get("w_misc", 0.0)
            if wm and rng.random() < wm:
                try:
                    done += bool(g.gen_misc())
                except GenSkip:
                    pass
                continue
            try:
                if x < wf / tot:
                    ok = g.gen_functional()
                elif x < (wf + wv) / tot:
                    ok = g.gen_view()
                else:
                    ok = g.gen_inplace()
            except GenSkip:
                ok = False
            done += bool(ok)
        while g.scopes:
            g.exit_scope()
        for _ in range(3):
            if rng.random() < profile.get("p_drop", 0.0) and len(g.live()) > 2:
                h = g.pick()
                if h is not None:
                    g.prog.append({"k": "drop", "h": h})
                    del g.np.H[h]
                    g.epoch_views.discard(h)
        if profile.get("backward", True):
            nterm = rng.randint(1, profile.get("max_terminals", 1))
            Ls = []
            for _ in range(nterm):
                if g.last_L in g.np.H and not g.isview.get(g.last_L) and rng.random() < profile.get("p_repeat_L", 0.0):
                    L = g.last_L             # the terminal of the previous epoch once more
                elif rng.random() < profile.get("p_nonscalar_L", 0.0):
                    ok_L = lambda h: not g.const[h] and g.arr(h).size > 0 and h not in g.disconnected and h not in g.stale  # noqa: E731
                    # (half of the time: a tensor that owns memory other live tensors view - its views' gradients follow its own)
                    owners = [h for h in g.live() if ok_L(h) and not g.isview.get(h) and any(
                        q != h and g.isview.get(q) and np.shares_memory(g.arr(q), g.arr(h)) for q in g.np.H)]
                    L = rng.choice(owners) if owners and rng.random() < 0.5 else g.pick(ok_L)
                else:
                    L = g.terminal()
                if L is not None:
                    Ls.append(L)
            # between the terminals' backward calls: optional re-use / mutation of shared tensors (C09)
            for j, L in enumerate(Ls):
                if j > 0:
                    for _ in range(rng.randint(0, profile.get("between_steps", 0))):
                        try:
                            rng.choice([g.gen_functional, g.gen_inplace, g.gen_view, g.gen_misc])()
                        except GenSkip:
                            pass
                if L not in g.np.H:
                    continue
                seed = kind = None
                force_view = False
                x = rng.random()
                if x < profile.get("p_bad_seed", 0.0):
                    seed, kind = g.rand_seed(list(g.arr(L).shape), bad=True)
                elif x < profile.get("p_bad_seed", 0.0) + profile.get("p_seed", 0.0):
                    seed, kind = g.rand_seed(list(g.arr(L).shape))
                elif L == g.last_L and g.prog and g.last_backward.get("seed_view"):
                    # the same terminal as last time, seeded again from the caller's buffer
                    shL = list(g.arr(L).shape)
                    seed, kind = {"arr": {"sh": shL, "v": [R(rng.choice([1, 2, -1, 3, -2])) for _ in range(int(np.prod(shL)) if shL else 1)]}}, None
                    force_view = True
                if rng.random() < profile.get("p_clear_instead", 0.0):
                    g.prog.append({"k": "clear", "h": L})
                else:
                    g.backward(L, seed, kind)
                    if force_view and "seed_order" not in g.prog[-1]:
                        g.prog[-1]["seed_view"] = True
                    g.last_L = L
                    g.last_backward = g.prog[-1]
                g.end_epoch_drop_views()
                if profile.get("editgrad") and rng.random() < 0.6:
                    t = g.pick(lambda h: g.arr(h).size > 0)
                    if t is not None:
                        g.prog.append({"k": "editgrad", "h": t, "ix": g.basic_index(list(g.arr(t).shape)), "c": R(rng.choice([7, -5, 9]))})
            g.end_epoch_drop_views()
    return g.prog


PROFILES = {
    "c01": dict(p_where_mask=0.12, functional=["bin", "bin", "un", "power", "red", "red", "matmul", "where", "join", "gathercopy",
                            "act", "cum", "seq", "einsum", "conv", "pool", "loss"], p_hd_operand=0.06,
                w_func=0.75, w_view=0.25, w_inplace=0.0, max_leaves=3, max_steps=8, p_const_leaf=0.2, p_forder_leaf=0.2),
    # C02: short programs (one to three operations) ended by backward with a non-trivial seed: every operation's VJP on
    # random shapes / broadcasts / options, beyond the fixed cells of OpTable.tla
    "c02": dict(p_where_mask=0.12, functional=["bin", "bin", "un", "power", "red", "red", "matmul", "where", "join", "gathercopy",
                            "act", "cum", "seq", "einsum", "einsum", "conv", "pool", "loss"], p_hd_operand=0.06,
                w_func=0.8, w_view=0.2, w_inplace=0.0, max_leaves=3, max_steps=3, p_const_leaf=0.15, p_seed=0.8,
                p_nonscalar_L=0.9, p_forder_leaf=0.15),
    # C03: forward agreement with NumPy in value, shape and dtype along whole programs with integer / float32 / float16 leaves
    "c03": dict(p_where_mask=0.12, functional=["bin", "bin", "un", "power", "red", "red", "matmul", "where", "join", "gathercopy", "act", "cum", "seq",
                            "einsum", "pool"],
                w_func=0.65, w_view=0.25, w_inplace=0.1, max_leaves=3, max_steps=8, p_const_leaf=0.3, p_int_leaf=0.3, p_f32_leaf=0.3,
                backward=False, p_forder_leaf=0.1),
    "c04": dict(p_forder_leaf=0.25, functional=["bin", "un", "red"], w_func=0.25, w_view=0.4, w_inplace=0.35, max_leaves=2,
                max_steps=8, backward=False, p_const_leaf=0.2, p_kw_const_view=0.08, p_kw_const_out=0.15,
                inplace=["setitem", "setitem", "aug", "uout", "setshape"], w_misc=0.08, misc=["fail"]),
    "c05": dict(p_forder_leaf=0.25, functional=["bin", "bin", "un", "red", "matmul", "gathercopy"], w_func=0.35, w_view=0.3, w_inplace=0.35,
                max_leaves=2, max_steps=8, p_const_leaf=0.15, w_misc=0.08, misc=["fail"]),
    "c06": dict(p_layout_probe=0.2, p_forder_leaf=0.25, functional=["bin", "un", "red"], w_func=0.4, w_view=0.6, w_inplace=0.0, max_leaves=2, max_steps=7,
                p_const_leaf=0.0, w_misc=0.08, misc=["copy"], max_epochs=3, p_keep_stale=0.5, p_reuse_stale=0.7,
                p_seed=0.55, p_nonscalar_L=0.45, p_repeat_L=0.7, p_seed_view=0.75),
    "c09": dict(functional=["bin", "bin", "un", "red", "matmul"], w_func=0.5, w_view=0.25, w_inplace=0.25, max_leaves=2,
                max_steps=5, max_epochs=2, max_terminals=3, between_steps=3, p_const_leaf=0.15, w_misc=0.1,
                misc=["clear", "nullgrad"], p_clear_instead=0.2, inplace=["setitem", "setitem", "aug", "uout", "setshape"]),
    "c10": dict(functional=["bin", "bin", "un", "power", "red", "matmul", "where", "join", "gathercopy", "einsum", "seq", "act"],
                p_hd_operand=0.12, w_func=0.55,
                w_view=0.25, w_inplace=0.2, max_leaves=3, max_steps=8, p_const_leaf=0.4, p_kw_const=0.3, p_int_leaf=0.2,
                p_kw_const_out=0.3, p_kw_const_view=0.05),
    "c12": dict(p_where_mask=0.12, functional=["bin", "bin", "un", "power", "red", "matmul", "where", "join", "gathercopy",
                            "act", "cum", "seq", "einsum", "conv", "pool", "loss"], w_func=0.6, p_forder_leaf=0.2,
                w_view=0.25, w_inplace=0.15, max_leaves=3, max_steps=7, p_const_leaf=0.15, max_epochs=2, p_seed=0.5,
                p_nonscalar_L=0.5, editgrad=True, w_misc=0.1, misc=["copy"]),
    "c13": dict(p_update_carried=0.35, functional=["bin", "bin", "un", "red", "matmul", "gathercopy"], w_func=0.4, w_view=0.25, w_inplace=0.2,
                max_leaves=2, max_steps=9, p_const_leaf=0.15, w_misc=0.3, misc=["fail"], max_epochs=3, p_bad_seed=0.1,
                p_keep_stale=0.5, p_reuse_stale=0.7),
    "c14": dict(p_where_mask=0.12, functional=["bin", "bin", "un", "power", "red", "matmul", "where", "join", "gathercopy",
                            "act", "cum", "seq", "einsum", "conv", "pool", "loss"], w_func=0.65,
                w_view=0.25, w_inplace=0.1, max_leaves=3, max_steps=6, p_const_leaf=0.15, p_seed=0.55, p_bad_seed=0.15,
                p_nonscalar_L=0.7, p_f32_leaf=0.35),
    "c15": dict(p_update_carried=0.35, functional=["bin", "bin", "un", "red", "matmul", "gathercopy"], w_func=0.4, w_view=0.3, w_inplace=0.3,
                max_leaves=2, max_steps=9, p_const_leaf=0.2, p_scope=0.3, max_epochs=3, p_keep_stale=0.4, p_reuse_stale=0.6,
                # gradients handed in as slices of a caller-owned buffer: a view's gradient is then re-derived on every read,
                # also on the reads the harness makes inside the scopes
                p_seed=0.5, p_nonscalar_L=0.45, p_seed_view=0.85),
    "c07": dict(p_update_carried=0.7, functional=["bin", "un", "red", "matmul", "gathercopy"], w_func=0.5, w_view=0.3, w_inplace=0.2, max_leaves=2,
                max_steps=5, max_epochs=3, p_const_leaf=0.1, w_misc=0.1, misc=["nullgrad", "copy"], p_keep_stale=0.5, p_reuse_stale=0.7,
                p_drop=0.35),
}

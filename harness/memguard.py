"""C08 binding: behaviours of spec/MemGuard.tla executed with real NumPy arrays, tensors and operations.

The model's statements are spelled with the public API; reference drops are explicit `del`s (CPython's reference
counting makes finalisation deterministic; the cyclic GC is disabled).  After every statement the writeable flag
of every array / tensor the user still holds is compared with the model's prediction; the sizes of the three lock
tables are compared as a drift indicator (internal state, reported but never a property violation by itself).
"""
from __future__ import annotations

import gc

import numpy as np

import mygrad as mg
import mygrad._utils.lock_management as _mem

from .driver import reset_global_state

_BAD_MASK = np.array([True, False])  # does not broadcast against the (3,) operands: the forward pass raises


class World:
    def __init__(self):
        self.A = {}
        self.T = {}
        self.k = 0

    def operand(self, o):
        kind, i = o
        return self.T[i] if kind == "t" else self.A[i]

    def run(self, ev, newa, newt):
        k = ev["k"]
        if k == "newarr":
            self.k += 1
            a = np.arange(3.0) + self.k
            if not ev["w"]:
                a.flags.writeable = False
            self.A[newa[0]] = a
        elif k == "npview":
            self.A[newa[0]] = self.A[ev["a"]][:]
        elif k == "freeze":
            self.A[ev["a"]].flags.writeable = False
        elif k == "wrap":
            self.T[newt[0]] = mg.tensor(self.A[ev["a"]], copy=False)
        elif k == "op":
            xs = [self.operand(o) for o in ev["ins"]]
            self.T[newt[0]] = mg.negative(xs[0]) if len(xs) == 1 else mg.add(xs[0], xs[1])
        elif k == "opout":
            xs = [self.operand(o) for o in ev["ins"]]
            out = self.A[ev["out"]]
            try:
                r = mg.negative(xs[0], out=out) if len(xs) == 1 else mg.add(xs[0], xs[1], out=out)
            except ValueError as e:  # "output array is read-only": the target aliases a (now locked) input
                del e
                assert not newt, "the model predicted success"
            else:
                assert r.data is out
                self.T[newt[0]] = r
                del r
            del out, xs
        elif k in ("inplace", "inplacefam"):
            t = self.T[ev["t"]]
            v = self.operand(ev["val"])
            try:
                t[...] = v
            except ValueError as e:   # natively read-only target
                del e
            assert self.T[ev["t"]] is t
            del t, v
        elif k == "view":
            self.T[newt[0]] = self.T[ev["t"]][...]
        elif k == "fail":
            xs = [self.operand(o) for o in ev["ins"]]
            try:
                if ev.get("badout"):
                    mg.add(xs[0], xs[1], out=np.zeros(5))  # out= of the wrong shape: the forward pass raises
                elif len(xs) == 1:
                    mg.negative(xs[0], where=_BAD_MASK)
                else:
                    mg.add(xs[0], xs[1], where=_BAD_MASK)
            except ValueError as e:
                del e
            else:  # pragma: no cover
                raise AssertionError("the failing statement did not fail")
            del xs
        elif k == "dataof":
            self.A[newa[0]] = self.T[ev["t"]].data
        elif k == "clear":
            self.T[ev["t"]].clear_graph()
        elif k == "backward":
            self.T[ev["t"]].backward()
        elif k == "dropt":
            del self.T[ev["t"]]
        elif k == "dropa":
            del self.A[ev["a"]]
        elif k == "guard":
            (mg.turn_memory_guarding_on if ev["on"] else mg.turn_memory_guarding_off)()
        else:  # pragma: no cover
            raise ValueError(k)

    def observe(self, na, nt):
        aw = [(1 if self.A[a].flags.writeable else 0) if a in self.A else -1 for a in range(1, na + 1)]
        tw = [(1 if self.T[t].data.flags.writeable else 0) if t in self.T else -1 for t in range(1, nt + 1)]
        return {
            "aw": aw,
            "tw": tw,
            "ntrk": len(_mem._array_tracker),
            "ncnt": sum(1 for v in _mem._array_counter.values() if v > 0),
            "nwait": sum(1 for v in _mem._views_waiting_for_unlock.values() if v),
        }


def compare(beh: list[dict]):
    """Returns None when the implementation follows the behaviour, else (event_no, field, predicted, observed, drift_only)."""
    reset_global_state()
    was = gc.isenabled()
    gc.disable()
    w = World()
    drift = None
    try:
        for i, e in enumerate(beh, 1):
            try:
                w.run(e["ev"], e["newa"], e["newt"])
            except Exception as ex:  # noqa: BLE001
                return (i, "exception", "none", f"{type(ex).__name__}: {ex}", False)
            p = e["proj"]
            o = w.observe(len(p["aw"]), len(p["tw"]))
            for f in ("aw", "tw"):
                if list(p[f]) != o[f]:
                    return (i, f, list(p[f]), o[f], False)
            for f in ("ntrk", "ncnt", "nwait"):
                if p[f] != o[f] and drift is None:
                    drift = (i, f, p[f], o[f], True)   # internal table size only: keep going, a flag may differ later
        return drift
    finally:
        w.A.clear()
        w.T.clear()
        reset_global_state()
        if was:
            gc.enable()


def compare_many(behs):
    """Worker for multiprocessing: compares a list of behaviours, returns [(index, result)] for the disagreeing ones."""
    out = []
    for i, b in enumerate(behs):
        r = compare(b)
        if r is not None:
            out.append((i, r))
    return out

"""Binding for spec/tables/Recurrent.tla (GRU; C16 forward recurrence, C02 vector-Jacobian product).

The table gives the documented recurrence unrolled into a straight-line program of scalar definitions.  The harness
evaluates it in extended precision over forward-mode dual numbers (one tangent component per input element; no backward
rule is written anywhere), runs mygrad.nnet.layers.gru on the same data and compares
  - every element of S              (1e-10 relative; C16),
  - the gradient of every input of  L = sum(S * Wt)  for a fixed weighting Wt   (1e-8 relative; C02)."""
from __future__ import annotations

import numpy as np

import mygrad as mg

LD = np.longdouble
NAMES = ("X", "Uz", "Wz", "bz", "Ur", "Wr", "br", "Uh", "Wh", "bh", "s0")


def _shapes(c):
    T, N, C, D = c["T"], c["N"], c["C"], c["D"]
    sh = {"X": (T, N, C), "s0": (N, D)}
    for g in "zrh":
        sh["U" + g], sh["W" + g], sh["b" + g] = (C, D), (D, D), (D,)
    return sh


def _inputs(c):
    rng = np.random.RandomState(1000 * c["T"] + 100 * c["N"] + 10 * c["C"] + c["D"])
    sh = _shapes(c)
    return {k: rng.uniform(-1.0, 1.0, size=sh[k]) for k in NAMES}


class _Dual:
    __slots__ = ("v", "t")

    def __init__(self, v, t):
        self.v, self.t = v, t


def _eval(program, vals, offsets, ntan):
    env = {}
    zero = np.zeros(ntan, dtype=LD)

    def ev(e):
        op = e[0]
        if op == "in":
            name, i, j, k = e[1], e[2], e[3], e[4]
            a = vals[name]
            idx = (i, j, k)[: a.ndim]
            t = zero.copy()
            if name in offsets:
                t[offsets[name] + int(np.ravel_multi_index(idx, a.shape))] = 1
            return _Dual(LD(a[idx]), t)
        if op == "ref":
            return env[tuple(e[1])]
        if op == "c":
            return _Dual(LD(e[1]), zero)
        if op in ("sigmoid", "tanh"):
            a = ev(e[1])
            if op == "sigmoid":
                s = 1 / (1 + np.exp(-a.v))
                return _Dual(s, a.t * (s * (1 - s)))
            th = np.tanh(a.v)
            return _Dual(th, a.t * (1 - th * th))
        a, b = ev(e[1]), ev(e[2])
        if op == "add":
            return _Dual(a.v + b.v, a.t + b.t)
        if op == "sub":
            return _Dual(a.v - b.v, a.t - b.t)
        if op == "mul":
            return _Dual(a.v * b.v, a.t * b.v + b.t * a.v)
        raise ValueError(op)

    for d in program:
        env[tuple(d["name"])] = ev(d["e"])
    return env


def _rel(got, want):
    got, want = np.asarray(got, dtype=LD), np.asarray(want, dtype=LD)
    return float(np.max(np.abs(got - want) / np.maximum(LD(1.0), np.abs(want)))) if got.size else 0.0


def run_cell(item, what=("value", "vjp")):
    """None when MyGrad agrees with the table, else (what, expected, observed)."""
    c, prog = item["cell"], item["program"]
    T, N, D = c["T"], c["N"], c["D"]
    vals = _inputs(c)
    const = {"none": (), "X": ("X",), "W": ("Wz", "Wr", "Wh"), "b": ("bz", "br", "bh")}[c["const"]]
    var = [k for k in NAMES[:-1] if k not in const]
    offsets, n = {}, 0
    for k in var:
        offsets[k] = n
        n += vals[k].size
    env = _eval(prog, vals, offsets, n)
    S = np.zeros((T + 1, N, D), dtype=LD)
    dS = np.zeros((T + 1, N, D, n), dtype=LD)
    if c["s0"] != "none":
        S[0] = vals["s0"]
    for t in range(1, T + 1):
        for i in range(N):
            for d in range(D):
                u = env[("S", t, i, d)]
                S[t, i, d], dS[t, i, d] = u.v, u.t
    args = []
    for k in NAMES[:-1]:
        a = vals[k].copy()
        if k in const:
            args.append(a if c["const"] == "b" else mg.tensor(a, constant=True))
        else:
            args.append(mg.tensor(a))
    s0 = None if c["s0"] == "none" else (vals["s0"].copy() if c["s0"] == "array" else mg.tensor(vals["s0"].copy(), constant=True))
    s = mg.nnet.layers.gru(*args, s0=s0)
    if s.shape != (T + 1, N, D):
        return ("value: shape", [T + 1, N, D], list(s.shape))
    if "value" in what:
        err = _rel(s.data, S)
        if not np.isfinite(err) or err > 1e-10:
            i = np.unravel_index(int(np.argmax(np.abs(s.data.astype(LD) - S))), S.shape)
            return ("value: S" + str(list(map(int, i))), float(S[i]), f"{float(s.data[i])!r} (rel err {err:.2e})")
    if "vjp" in what:
        Wt = (np.arange(S.size).reshape(S.shape) % 5 - 2.0) + 0.5
        (s * Wt).sum().backward()
        want = np.tensordot(Wt.astype(LD), dS, axes=([0, 1, 2], [0, 1, 2]))
        for k, t in zip(NAMES[:-1], args):
            if k in const:
                if isinstance(t, mg.Tensor) and t.grad is not None:
                    return (f"vjp: constant input {k} has a gradient", None, "array")
                continue
            if t.grad is None:
                return (f"vjp: {k}.grad", "array", None)
            w = want[offsets[k]: offsets[k] + vals[k].size].reshape(vals[k].shape)
            if t.grad.shape != w.shape:
                return (f"vjp: {k}.grad shape", list(w.shape), list(t.grad.shape))
            err = _rel(t.grad, w)
            if not np.isfinite(err) or err > 1e-8:
                return (f"vjp: d/d{k}", np.asarray(w, dtype=float).ravel()[:6].tolist(), f"{t.grad.ravel()[:6].tolist()} (rel err {err:.2e})")
    return None

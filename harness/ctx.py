"""C15 binding: behaviours enumerated by TLC from spec/Context.tla are executed with the real context managers
(`with` statements and decorators, bodies that raise) and the two process-wide switches compared after every event."""
from __future__ import annotations

import mygrad as mg
import mygrad._utils.graph_tracking as _track
import mygrad._utils.lock_management as _mem

from .driver import reset_global_state


class Raised(Exception):
    pass


def _managers():
    return {"no_autodiff": mg.no_autodiff, "mem_guard_off": mg.mem_guard_off, "mem_guard_on": mg.mem_guard_on}


def replay(events: list[dict]) -> list[tuple[bool, bool]]:
    """Returns the observed (TRACK_GRAPH, MEM_GUARD) after every event."""
    reset_global_state()
    M = _managers()
    obs: list = [None] * len(events)

    def log(i):
        obs[i] = (bool(_track.TRACK_GRAPH), bool(_mem.MEM_GUARD))

    def run_body(i):
        while i < len(events):
            ev = events[i]
            if ev["k"] == "enter":
                i = run_scope(i)
            elif ev["k"] == "turn":
                (mg.turn_memory_guarding_on if ev["on"] else mg.turn_memory_guarding_off)()
                log(i)
                i += 1
            else:
                return i
        return i

    def run_scope(i):
        ev = events[i]
        m = M[ev["m"]]
        box = {}

        def body():
            log(i)
            j = run_body(i + 1)
            box["j"] = j
            if j < len(events) and events[j]["raising"]:
                raise Raised()

        try:
            if ev["form"] == "ctx":
                with m:
                    body()
            else:
                m(body)()
        except Raised:
            pass
        j = box["j"]
        if j < len(events):
            assert events[j]["k"] == "exit" and events[j]["m"] == ev["m"], (events, i, j)
            log(j)
        return j + 1

    try:
        k = run_body(0)
        assert k >= len(events), (k, events)
    finally:
        reset_global_state()
    return obs


def compare(beh: list[dict]):
    events = [e["ev"] for e in beh]
    obs = replay(events)
    for i, (e, o) in enumerate(zip(beh, obs)):
        if o is None:
            return (i + 1, "unlogged", None, None)
        if (e["track"], e["guard"]) != o:
            return (i + 1, "switches", (e["track"], e["guard"]), o)
    # no residue in the managers once every scope is closed
    return None

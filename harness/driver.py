"""Implementation driver: runs statement programs on real MyGrad and on a NumPy twin and records, after
every statement, the projection of the state that the properties speak about (DESIGN 3.2, 4.1).

Always imports mygrad from /repo/src (the current working tree).
"""
from __future__ import annotations

import gc
import json
import sys

import numpy as np

import mygrad as mg
import mygrad._utils.lock_management as _mem
import mygrad._utils.graph_tracking as _track

from .stmts import Exec, OutOfModel, enc_arr


def reset_global_state():
    """Clean lock tables and default switches before each program (DESIGN section 11)."""
    _mem._array_counter.clear()
    _mem._array_tracker.clear()
    _mem._views_waiting_for_unlock.clear()
    _mem.MEM_GUARD = True
    _track.TRACK_GRAPH = True
    for m in (_mem.mem_guard_off, _mem.mem_guard_on, _track.no_autodiff):
        m.__dict__.pop("_depth", None)
        m._depth_tracker.clear()


def project(mgx: Exec, npx: Exec, order: list[int], want_np=True) -> dict:
    H = mgx.H
    ids = {id(t): h for h, t in H.items()}
    per = []
    grads = {}
    for h in order:
        if h not in H:
            per.append({"live": False})
            continue
        t = H[h]
        g = t.grad
        grads[h] = g
        base = t.base
        rec = {
            "live": True,
            "v": enc_arr(t.data),
            "sh": list(t.shape),
            "const": bool(t.constant),
            "base": 0 if base is None else ids.get(id(base), -1),
            "crn": t.creator is None,
            "g": {"none": True} if g is None else {"none": False, "v": enc_arr(g)},
            "gsh": [-1] if g is None else list(np.shape(g)),
            "gdt": "none" if g is None else str(getattr(g, "dtype", type(g).__name__)),
            "gnd": bool(g is None or type(g) is np.ndarray),
            "dt": str(t.dtype),
            "wr": bool(t.data.flags.writeable),
            "nops": len(t._ops),
        }
        if want_np:
            a = npx.H[h]
            rec["np_v"] = enc_arr(a)
            rec["np_sh"] = list(a.shape)
            rec["np_dt"] = str(a.dtype)
        per.append(rec)
    live = [h for h in order if h in H]
    share, np_share, gshare = [], [], []
    for i, a in enumerate(live):
        for b in live[i + 1 :]:
            if np.shares_memory(H[a].data, H[b].data):
                share.append([a, b])
            if want_np and np.shares_memory(npx.H[a], npx.H[b]):
                np_share.append([a, b])
            ga, gb = grads[a], grads[b]
            if ga is not None and gb is not None and np.shares_memory(ga, gb):
                gshare.append([a, b])
    # a gradient must never alias any tensor's data (C12)
    gdata = []
    for a in live:
        if grads[a] is None:
            continue
        for b in live:
            if np.shares_memory(grads[a], H[b].data):
                gdata.append([a, b])
    # caller-owned arrays (inline operands, seeds) must never be modified (C12)
    mut = sum(1 for a, c in mgx.owned if not np.array_equal(a, c, equal_nan=True))
    if mgx.last_seed is not None and not np.array_equal(mgx.last_seed, mgx.last_seed_copy):
        mut += 1
    return {"t": per, "share": share, "np_share": np_share, "gshare": gshare, "gdata": gdata, "mut": mut,
            "track": bool(_track.TRACK_GRAPH), "guard": bool(_mem.MEM_GUARD)}


import types
import weakref

from mygrad.operation_base import Operation

_SKIP = (str, bytes, int, float, complex, bool, type(None), np.ndarray, np.generic, types.ModuleType, type,
         types.BuiltinFunctionType, weakref.ReferenceType)


def _referents(o):
    """Strong references that can keep graph objects alive (module globals are deliberately not followed)."""
    if isinstance(o, types.FunctionType):
        out = list(o.__closure__ or ())
        if o.__defaults__:
            out += list(o.__defaults__)
        if o.__kwdefaults__:
            out += list(o.__kwdefaults__.values())
        w = getattr(o, "__wrapped__", None)
        if w is not None:
            out.append(w)
        return out
    if isinstance(o, types.MethodType):
        return [o.__self__, o.__func__]
    if isinstance(o, types.CellType):
        try:
            return [o.cell_contents]
        except ValueError:
            return []
    return gc.get_referents(o)


def reachable_graph_objects(roots):
    """Tensors and Operations reachable through strong references from `roots`."""
    seen = set()
    found = {}
    stack = list(roots)
    while stack:
        o = stack.pop()
        i = id(o)
        if i in seen:
            continue
        seen.add(i)
        if isinstance(o, (mg.Tensor, Operation)):
            found[i] = o
        for r in _referents(o):
            if isinstance(r, _SKIP) or id(r) in seen:
                continue
            if isinstance(r, (mg.Tensor, Operation, tuple, list, dict, set, frozenset, types.FunctionType,
                              types.MethodType, types.CellType)):
                stack.append(r)
    return found


class LeakWatch:
    """Weak references to every Tensor / Operation ever reachable from the handles; `leaked()` = those still alive
    although no longer reachable from any handle (C07: everything unreferenced is freed by refcount alone)."""

    def __init__(self):
        self.refs = {}

    def update_and_count(self, H) -> int:
        cur = reachable_graph_objects(list(H.values()))
        for i, o in cur.items():
            if i not in self.refs:
                try:
                    self.refs[i] = weakref.ref(o)
                except TypeError:
                    pass
        leaked = 0
        for i, r in list(self.refs.items()):
            o = r()
            if o is None:
                del self.refs[i]
            elif i not in cur:
                leaked += 1
            del o
        cur.clear()
        return leaked


def _step(x: Exec, s: dict):
    """One statement in its own frame so that a traceback cannot keep objects alive."""
    try:
        x.run(s)
        return "none"
    except OutOfModel:
        raise
    except Exception as e:  # noqa: BLE001
        name = type(e).__name__
        del e
        return name


def run_program(prog: list[dict]) -> list[dict] | None:
    """Returns the trace (list of lines) or None when the program leaves the exact fragment."""
    reset_global_state()
    gc_was = gc.isenabled()
    gc.disable()
    try:
        mgx, npx = Exec("mg"), Exec("np")
        watch = LeakWatch()
        order: list[int] = []
        lines = []
        for s in prog:
            snap = None
            if s["k"] in ("setitem", "aug", "uout", "setshape"):
                snap = {h: a.copy() for h, a in npx.H.items()}
            with np.errstate(all="ignore"):
                e_np = _step(npx, s)
                e_mg = _step(mgx, s)
            if e_mg != "none" and e_np == "none":
                # MyGrad refused a statement NumPy accepted: the twin is rolled back so that it keeps mirroring
                # the program "with the failing statement removed" (C13)
                if snap is not None:
                    for h, a in snap.items():
                        if npx.H[h].shape != a.shape:
                            import warnings

                            with warnings.catch_warnings():
                                warnings.simplefilter("ignore")
                                npx.H[h].shape = a.shape
                        if npx.H[h].flags.writeable:
                            npx.H[h][...] = a
                elif s["k"] in ("op", "leaf") and s.get("h") in npx.H:
                    del npx.H[s["h"]]
            if e_mg == "none" and e_np != "none":
                # MyGrad accepted a statement NumPy refuses: never admissible (verdict `exc` at this line); the twin no
                # longer mirrors the program, so the trace ends here
                lines.append({"stmt": s, "obs": lines[-1]["obs"] if lines else {"t": {}}, "exc": e_mg, "exc_np": e_np})
                break
            if "h" in s and s["k"] in ("leaf", "op", "copy") and s["h"] not in order and s["h"] in mgx.H:
                order.append(s["h"])
            try:
                obs = project(mgx, npx, order)
                obs["leak"] = watch.update_and_count(mgx.H)
            except OutOfModel:
                return None
            line = {"stmt": s, "obs": obs, "exc": e_mg, "exc_np": e_np}
            if e_mg == "InvalidBackprop" and s["k"] == "backward":
                line["retry_exc"] = _step(mgx, s)      # a refused backward must be refused again when asked again (C09)
            lines.append(line)
            if e_mg != "none" and s["k"] == "backward":
                break  # an aborted backward leaves gradients unspecified (C09): the trace ends here
        return lines
    finally:
        mgx = npx = None
        reset_global_state()
        if gc_was:
            gc.enable()


def main(argv):
    progs = json.load(open(argv[1]))
    out = []
    skipped = 0
    for p in progs:
        tr = run_program(p)
        if tr is None:
            skipped += 1
        else:
            out.append(tr)
    json.dump({"traces": out, "skipped": skipped}, open(argv[2], "w"))


if __name__ == "__main__":
    main(sys.argv)

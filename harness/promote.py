"""C03 binding: every cell of spec/tables/Promote.tla evaluated three ways - MyGrad (tracking on), MyGrad under
no_autodiff, and NumPy on the underlying arrays - and compared bit for bit (value bytes, shape, dtype); the dtype must
also be the one the table's NEP-50 rules give."""
from __future__ import annotations

import warnings

import numpy as np

import mygrad as mg

DT = {"b1": np.bool_, "i1": np.int8, "i8": np.int64, "f2": np.float16, "f4": np.float32, "f8": np.float64}
NAME = {np.dtype(v): k for k, v in DT.items()}


def dtname(d):
    return NAME.get(np.dtype(d), str(np.dtype(d)))


def base_vals(shape, dt, offset=0):
    n = int(np.prod(shape)) if shape else 1
    if dt == "b1":
        v = np.array([(i + offset) % 2 == 0 for i in range(n)], dtype=np.bool_)
    elif dt in ("i1", "i8"):
        v = np.array([((i + offset) % 4) + 1 for i in range(n)], dtype=DT[dt])
    else:
        v = np.array([((i * 3 + offset) % 7) / 2.0 + 0.5 for i in range(n)], dtype=DT[dt])
    return v.reshape(shape)


def layout(a: np.ndarray, ly: str) -> np.ndarray:
    if ly == "contig" or a.ndim == 0:
        return a
    if ly == "strided":
        big = np.zeros(a.shape[:-1] + (2 * a.shape[-1],), dtype=a.dtype)
        big[..., ::2] = a
        return big[..., ::2]
    if ly == "transposed":
        return np.ascontiguousarray(a.T).T if a.ndim >= 2 else a[::-1][::-1]
    if ly == "fortran":
        return np.asfortranarray(a)
    raise ValueError(ly)


def token(x):
    a = np.asarray(x)
    return (dtname(a.dtype), tuple(a.shape), np.ascontiguousarray(a).tobytes())


def three_way(name, mg_call, np_call, want_dtype):
    """mg_call() -> Tensor/array using tensors; np_call() -> array using raw arrays."""
    with warnings.catch_warnings():
        warnings.simplefilter("ignore")
        try:
            ref = np_call()
            ref_err = None
        except Exception as e:  # noqa: BLE001
            ref, ref_err = None, type(e).__name__
        outs = {}
        for mode in ("tracked", "untracked"):
            try:
                if mode == "untracked":
                    with mg.no_autodiff:
                        r = mg_call()
                else:
                    r = mg_call()
                outs[mode] = ("ok", r)
            except Exception as e:  # noqa: BLE001
                outs[mode] = ("err", type(e).__name__)
    if ref_err is not None:
        if want_dtype != "ERR":
            return ("table-vs-numpy", want_dtype, f"NumPy raises {ref_err}", True)
        for mode, (st, r) in outs.items():
            if st != "err":
                return (f"{mode}:raises", ref_err, "returned a value", False)
        return None
    if want_dtype == "ERR":
        return ("table-vs-numpy", "ERR", dtname(np.asarray(ref).dtype), True)
    rt = token(ref)
    if rt[0] != want_dtype:
        return ("table-vs-numpy", want_dtype, rt[0], True)
    for mode, (st, r) in outs.items():
        if st == "err":
            return (f"{mode}:raises", "a value", r, False)
        t = token(r.data if isinstance(r, mg.Tensor) else r)
        if t[0] != rt[0]:
            return (f"{mode}:dtype", rt[0], t[0], False)
        if t[1] != rt[1]:
            return (f"{mode}:shape", list(rt[1]), list(t[1]), False)
        if t[2] != rt[2]:
            a, b = np.asarray(ref), np.asarray(r.data if isinstance(r, mg.Tensor) else r)
            if not (np.array_equal(a, b, equal_nan=True)):
                return (f"{mode}:value", a.tolist(), b.tolist(), False)
    return None


RED_KW = {"none": {}, "axis0": {"axis": 0}, "axism1": {"axis": -1}, "keepdims": {"keepdims": True, "axis": 0},
          "axesall": None, "axesempty": {"axis": ()}}


def run_cell(c):
    g = c["group"]
    f = c["f"]
    if g == "binary":
        sh = tuple(c["shape"])
        a = layout(base_vals(sh, c["a"]), c["layout"])
        k = c["k"]
        if k in DT:
            b_raw = layout(base_vals(sh if c["opt"] == "none" else sh[-1:], k, 2), c["layout"] if c["opt"] == "none" else "contig")
            b_mg = b_raw
        else:
            b_raw = b_mg = {"pybool": True, "pyint": 2, "pyfloat": 2.0}[k]   # (equal values of different Python types on purpose)
        ta = mg.tensor(a) if c["a"] in ("f2", "f4", "f8") else mg.tensor(a)
        kw = {}
        opt = c["opt"]
        mask = (np.arange(int(np.prod(sh)) if sh else 1).reshape(sh) % 2).astype(bool)
        if "where" in opt:
            kw["where"] = mask
        if "dtype_f4" in opt:
            kw["dtype"] = np.float32
        if "dtype_f8" in opt:
            kw["dtype"] = np.float64
        left = c["side"] == "left"

        def mgc():
            k2 = dict(kw)
            if "where" in opt or opt == "out_f8":
                k2["out"] = np.full(sh, 7.0, dtype=np.float64 if opt == "out_f8" or "f8" in opt else np.float32 if "f4" in opt else (a.dtype if k not in DT else np.result_type(a, b_raw)))
            r = getattr(mg, f)(ta, b_mg, **k2) if left else getattr(mg, f)(b_mg, ta, **k2)
            return r

        def npc():
            k2 = dict(kw)
            if "where" in opt or opt == "out_f8":
                k2["out"] = np.full(sh, 7.0, dtype=np.float64 if opt == "out_f8" or "f8" in opt else np.float32 if "f4" in opt else (a.dtype if k not in DT else np.result_type(a, b_raw)))
            return getattr(np, f)(a, b_raw, **k2) if left else getattr(np, f)(b_raw, a, **k2)

        want = c["dtype"]
        if opt == "where":
            want = dtname(np.result_type(a, b_raw)) if k in DT else c["dtype"]
        return three_way(f, mgc, npc, want)
    if g == "unary":
        a = layout(base_vals(tuple(c["shape"]), c["a"]), c["layout"])
        kw = {"dtype": np.float64} if c["opt"] == "dtype_f8" else {}
        ta = mg.tensor(a)
        return three_way(f, lambda: getattr(mg, f)(ta, **kw), lambda: getattr(np, f)(a, **kw), c["dtype"])
    if g == "reduce":
        sh = tuple(c["shape"])
        a = layout(base_vals(sh, c["a"]), c["layout"])
        kw = RED_KW[c["kw"]]
        if kw is None:
            kw = {"axis": tuple(range(len(sh)))}
        if f in ("cumsum", "cumprod") and (isinstance(kw.get("axis"), tuple) or "keepdims" in kw):
            return None
        if f in ("max", "min") and a.size == 0:
            return None
        ta = mg.tensor(a)
        want = c["dtype"]
        return three_way(f, lambda: getattr(mg, f)(ta, **kw), lambda: getattr(np, f)(a, **kw), want)
    if g == "move":
        v = c["variant"]
        sh = (2, 3) if f not in ("transpose", "swapaxes", "moveaxis", "T") or v == 1 else (2, 3, 2)
        if f == "squeeze":
            sh = (2, 1, 3)
        a = layout(base_vals(sh, c["a"]), c["layout"])
        ta = mg.tensor(a)
        calls = {
            "reshape": (lambda x, L: L.reshape(x, (3, 2) if v == 1 else (-1,))),
            "ravel": (lambda x, L: L.ravel(x)),
            "transpose": (lambda x, L: L.transpose(x) if v == 1 else L.transpose(x, (1, 2, 0))),
            "swapaxes": (lambda x, L: L.swapaxes(x, 0, -1)),
            "moveaxis": (lambda x, L: L.moveaxis(x, 0, -1)),
            "squeeze": (lambda x, L: L.squeeze(x) if v == 1 else L.squeeze(x, axis=1)),
            "expand_dims": (lambda x, L: L.expand_dims(x, 0 if v == 1 else -1)),
            "broadcast_to": (lambda x, L: L.broadcast_to(x, (2,) + x.shape)),
            "repeat": (lambda x, L: L.repeat(x, 2, axis=0 if v == 1 else -1)),
            "roll": (lambda x, L: L.roll(x, 1, axis=0 if v == 1 else 1)),
            "concatenate": (lambda x, L: L.concatenate([x, x], axis=0 if v == 1 else -1)),
            "stack": (lambda x, L: L.stack([x, x], axis=0 if v == 1 else -1)),
            "flatten": (lambda x, L: x.flatten()),
            "T": (lambda x, L: x.T),
            "getitem": (lambda x, L: x[::-1, 1:] if v == 1 else x[..., None, 0]),
        }[f]
        return three_way(f, lambda: calls(ta, mg), lambda: calls(a, np), c["dtype"])
    if g == "misc":
        a = layout(base_vals((2, 3), c["a"]), c["layout"])
        b = layout(base_vals((3, 2), c["k"], 1), c["layout"])
        ta, tb = mg.tensor(a), mg.tensor(b)
        if f == "matmul":
            return three_way(f, lambda: mg.matmul(ta, tb), lambda: np.matmul(a, b), c["dtype"])
        if f == "einsum_mv":
            return three_way(f, lambda: mg.einsum("ij,jk->ik", ta, tb), lambda: np.einsum("ij,jk->ik", a, b), c["dtype"])
        m = np.array([[True, False, True], [False, True, False]])
        b2 = layout(base_vals((2, 3), c["k"], 1), c["layout"])
        tb2 = mg.tensor(b2)
        return three_way(f, lambda: mg.where(m, ta, tb2), lambda: np.where(m, a, b2), c["dtype"])
    raise ValueError(g)

"""Minimal witness histories of the open known findings that are defined by a history (the table-defined ones - F-C16-1,
F-C14-1 - are met by their tables on every run; F-C08-2/3 have their witnesses in checks.KF_WITNESS).  The check of a
finding's first-listed property re-executes its witness on every run: while the defect is there the run prints its
KNOWN-FINDING line; a witness that no longer fails is only noted (the finding can then be closed)."""
from __future__ import annotations

import numpy as np


def _f_c04_1():
    import mygrad as mg

    x = mg.tensor([1.0, 2.0, 3.0])
    y = mg.squeeze(x)                       # nothing to squeeze: NumPy hands back the same array
    shared = np.shares_memory(x.data, y.data)
    y[:] = 7.0                              # the update is not seen through x although they shared memory
    return bool(shared and not np.array_equal(x.data, y.data))


def _f_c09_1():
    import mygrad as mg
    from mygrad.errors import InvalidBackprop

    x = mg.tensor([1.0, 2.0])
    y = x + 0.0
    z = y * y                               # recorded while y = [1, 2]
    (y * 2.0).sum().backward()              # clears y: its consumer set is emptied
    y[:] = 5.0                              # in-place update re-routes only the consumers still listed
    _ = y * 1.0                             # y has a consumer again: the staleness guard no longer fires
    try:
        z.backward()
    except InvalidBackprop:
        return False
    return y.grad is not None and not np.array_equal(y.grad, [2.0, 4.0])


def _f_c02_1():
    import mygrad as mg

    try:
        mg.repeat(mg.tensor(np.zeros((0, 2))), 2, axis=1).backward()
    except ValueError:
        return True
    return False


def _f_c02_2():
    import mygrad as mg

    try:
        mg.einsum("ii->i", mg.tensor(np.zeros((0, 0)))).backward()
    except KeyError:
        return True
    return False


WITNESSES = {"F-C04-1": _f_c04_1, "F-C09-1": _f_c09_1, "F-C02-1": _f_c02_1, "F-C02-2": _f_c02_2}


def run(out):
    """Called from Outcome.finish(): witnesses of the open findings whose first-listed property is out.prop."""
    from .driver import reset_global_state

    for k in out.kfs:
        key = k["key"]
        if k.get("status") != "open" or key not in WITNESSES or (k.get("properties") or [None])[0] != out.prop:
            continue
        reset_global_state()
        try:
            still = WITNESSES[key]()
        except Exception as ex:  # noqa: BLE001
            out.notes.append(f"witness of {key} raised {type(ex).__name__}: {str(ex)[:120]}")
            continue
        finally:
            reset_global_state()
        if still:
            if out.kf_hits.get(key, 0) == 0:
                out.kf_hit(key)
            out.coverage.setdefault("known_finding_witnesses", {})[key] = "still fails"
        else:
            out.coverage.setdefault("known_finding_witnesses", {})[key] = "no longer fails"
            out.notes.append(f"the witness history of {key} no longer fails on this tree: the finding can be closed")

#!/bin/bash
# Offline setup: nothing is built; parse every TLA+ module with SANY and run the 2-second pipeline smoke test.
set -e
cd "$(dirname "${BASH_SOURCE[0]}")"
export PYTHONPATH="/repo/src:$PWD"
/venv/bin/python -m harness.selfcheck

------------------------------- MODULE Layers -------------------------------
(* DECISION TABLE for C16: sliding_window_view, conv_nd, max_pool.            *)
(*                                                                            *)
(* TLC enumerates the whole configuration space (every configuration is an    *)
(* initial state), checks the table's own invariants                          *)
(*   - InBounds / Formula : the transcribed stride arithmetic of              *)
(*       sliding_window_view addresses exactly  arr[n, g*step + w*dilation]   *)
(*       and never leaves arr;                                                *)
(*   - AcceptsExactly     : its guards accept exactly  w*d <= x ;             *)
(*   - ConvAcceptsExactly : conv_nd accepts exactly the configurations in     *)
(*       which every placement lies inside the padded data and the placements *)
(*       tile it exactly (this one has a KNOWN deviation, F-C16-1),           *)
(* and writes the expected outcome of every configuration (accept / reject,   *)
(* shape, every output value from the documented formula) as one JSON line.   *)
(* The harness executes every configuration on the real functions.            *)
EXTENDS Integers, Sequences, FiniteSets, TLC, Json, Arr

CONSTANTS Kind,      \* "sw1" "sw2" "conv1" "conv2" "pool1" "pool2"
          MaxX, MaxW, MaxS, MaxD, MaxP

VARIABLE cfg
vars == <<cfg>>

Dims(n, S) == IF n = 1 THEN {<<a>> : a \in S} ELSE {<<a, b>> : a \in S, b \in S}
ND == IF Kind \in {"sw1", "conv1", "pool1", "big"} THEN 1 ELSE 2

SwConfigs == {[kind |-> "sw", lead |-> l, x |-> x, w |-> w, s |-> s, d |-> d, dgiven |-> dg] :
                l \in {0, 2}, x \in Dims(ND, 1..MaxX), w \in Dims(ND, 1..MaxW), s \in Dims(ND, 1..MaxS),
                d \in Dims(ND, 1..MaxD), dg \in BOOLEAN}
ConvConfigs == {[kind |-> "conv", n |-> n, c |-> c, f |-> f, x |-> x, w |-> w, s |-> s, p |-> p, d |-> d] :
                n \in {1, 2}, c \in {1, 2}, f \in {1, 2}, x \in Dims(ND, 1..MaxX), w \in Dims(ND, 1..MaxW),
                s \in Dims(ND, 1..MaxS), p \in Dims(ND, 0..MaxP), d \in Dims(ND, 1..MaxD)}
PoolConfigs == {[kind |-> "pool", n |-> n, x |-> x, w |-> w, s |-> s] :
                n \in {1, 2}, x \in Dims(ND, 1..MaxX), w \in Dims(ND, 1..MaxW), s \in Dims(ND, 1..MaxS)}
\* losses with exact (rational) formulas: margins are given in halves (h2 = 2*margin)
HingeConfigs == {[kind |-> "hinge", n |-> n, c |-> c, h2 |-> h, variant |-> v] :
                   n \in 1..3, c \in 2..3, h \in {0, 1, 2, 4, 10}, v \in 1..2}
MarginConfigs == {[kind |-> "margin", n |-> n, m2 |-> m, variant |-> v] : n \in 1..4, m \in {0, 1, 2, 5}, v \in 1..2}
\* negative_log_likelihood(x, y, weights) = -(1/N) sum_i w[y_i] x[i, y_i] ; weights default to ones ; labels as for hinge
NllConfigs == {[kind |-> "nll", n |-> n, c |-> c, variant |-> v, weighted |-> w] : n \in 1..3, c \in 1..3, v \in 1..2, w \in BOOLEAN}
\* long axes (10^5 .. 10^6 elements, one spatial dimension): acceptance and output shape only - the tiling rule is exact
\* integer arithmetic whatever the magnitudes.  x = k*s + extent - 2p + r  with a leftover r in 0..2
BigKS == {<<999, 160>>, <<100000, 3>>, <<400000, 2>>, <<31250, 32>>, <<65536, 5>>}
BigPool == {[kind |-> "pool", big |-> TRUE, n |-> 1, x |-> <<ks[1] * ks[2] + w + r>>, w |-> <<w>>, s |-> <<ks[2]>>] :
              ks \in BigKS, w \in {2, 3}, r \in 0..2}
BigConv == {[kind |-> "conv", big |-> TRUE, n |-> 1, c |-> 1, f |-> 1, x |-> <<ks[1] * ks[2] + ((w - 1) * d + 1) - 2 * p + r>>,
             w |-> <<w>>, s |-> <<ks[2]>>, p |-> <<p>>, d |-> <<d>>] :
              ks \in BigKS, w \in {2, 3}, r \in 0..2, p \in {0, 2}, d \in {1, 2}}
Configs == IF Kind = "big" THEN BigPool \cup BigConv ELSE
           IF Kind \in {"sw1", "sw2"} THEN {c \in SwConfigs : c.dgiven \/ \A i \in 1..ND : c.d[i] = 1}
           ELSE IF Kind \in {"conv1", "conv2"} THEN ConvConfigs
           ELSE IF Kind = "losses" THEN HingeConfigs \cup MarginConfigs \cup NllConfigs ELSE PoolConfigs

\* deterministic fillers (the harness builds the same arrays)
FillX(i) == ((i * 7) % 11) - 5          \* i = 0-based flat index
FillK(i) == ((i * 3) % 5) - 2

Ext(w, d) == [i \in 1..Len(w) |-> (w[i] - 1) * d[i] + 1]           \* extent of a dilated window
Grid(x, w, s, d) == [i \in 1..Len(x) |-> ((x[i] - Ext(w, d)[i]) \div s[i]) + 1]

\* ---------------------------------------------------------------- sliding_window_view
\* the guards of the code, in order (types are right by construction)
SwAccepts(c) == /\ \A i \in 1..ND : c.w[i] <= c.x[i]
                /\ c.dgiven => \A i \in 1..ND : c.w[i] * c.d[i] <= c.x[i]
\* the pinned rule
SwRule(c) == \A i \in 1..ND : c.w[i] * c.d[i] <= c.x[i]
SwArrShape(c) == (IF c.lead = 0 THEN <<>> ELSE <<c.lead>>) \o c.x
SwOutShape(c) == Grid(c.x, c.w, c.s, c.d) \o (IF c.lead = 0 THEN <<>> ELSE <<c.lead>>) \o c.w
\* the code's stride arithmetic, in elements: win_stride over all axes of arr (row-major), step_stride over the
\* windowed axes, dilation folded into the windowed part of win_stride
SwStrides(c) ==
  LET ash == SwArrShape(c) na == Len(ash) ws == Strides(ash)
      stepst == [i \in 1..ND |-> ws[na - ND + i] * c.s[i]]
      winst  == [j \in 1..na |-> IF j > na - ND THEN ws[j] * c.d[j - (na - ND)] ELSE ws[j]]
  IN stepst \o winst
SwAddress(c, oi) == LET st == SwStrides(c) IN SeqSum([j \in 1..Len(oi) |-> oi[j] * st[j]])     \* 0-based element offset
\* the documented formula: out[g, n, w] = arr[n, g*step + w*dilation]
SwFormulaOffset(c, oi) ==
  LET nl == IF c.lead = 0 THEN 0 ELSE 1
      ash == SwArrShape(c)
      idx == [j \in 1..Len(ash) |-> IF j <= nl THEN oi[ND + j]
                                    ELSE LET i == j - nl IN oi[i] * c.s[i] + oi[ND + nl + i] * c.d[i]]
  IN Ravel(idx, ash) - 1
SwGather(c) == LET osh == SwOutShape(c) IN [p \in 1..Size(osh) |-> SwAddress(c, Unravel(p, osh))]

InBounds == (cfg.kind = "sw" /\ SwAccepts(cfg)) =>
               \A p \in 1..Size(SwOutShape(cfg)) :
                  LET a == SwAddress(cfg, Unravel(p, SwOutShape(cfg))) IN a >= 0 /\ a < Size(SwArrShape(cfg))
Formula == (cfg.kind = "sw" /\ SwAccepts(cfg)) =>
               \A p \in 1..Size(SwOutShape(cfg)) :
                  LET oi == Unravel(p, SwOutShape(cfg)) IN SwAddress(cfg, oi) = SwFormulaOffset(cfg, oi)
AcceptsExactly == cfg.kind = "sw" => (SwAccepts(cfg) <=> SwRule(cfg))

\* ---------------------------------------------------------------- conv_nd
Padded(c) == [i \in 1..ND |-> c.x[i] + 2 * c.p[i]]
\* documented validity: every placement inside the padded data, placements tile it exactly
ConvValid(c) == \A i \in 1..ND : LET r == Padded(c)[i] - Ext(c.w, c.d)[i] IN r >= 0 /\ r % c.s[i] = 0
\* what the code does: its own integer test, then sliding_window_view's guard on the padded data
ConvCodeAccepts(c) == ConvValid(c) /\ \A i \in 1..ND : c.w[i] <= Padded(c)[i] /\ c.w[i] * c.d[i] <= Padded(c)[i]
\* KNOWN FINDING F-C16-1: a dilated filter that fits exactly is refused (w*d > x+2p although (w-1)d+1 <= x+2p)
KF_C16_1(c) == ConvValid(c) /\ ~ConvCodeAccepts(c)
ConvAcceptsExactly == cfg.kind = "conv" => (ConvCodeAccepts(cfg) <=> ConvValid(cfg)) \/ KF_C16_1(cfg)
NoKF_C16_1 == cfg.kind = "conv" => ~KF_C16_1(cfg)

ConvXShape(c) == <<c.n, c.c>> \o c.x
ConvKShape(c) == <<c.f, c.c>> \o c.w
ConvOutShape(c) == <<c.n, c.f>> \o Grid(Padded(c), c.w, c.s, c.d)
\* value of the zero-padded input at (n, ch, spatial position pos in PADDED coordinates)
ConvXAt(c, n, ch, pos) ==
  IF \A i \in 1..ND : pos[i] >= c.p[i] /\ pos[i] < c.p[i] + c.x[i]
  THEN FillX(Ravel(<<n, ch>> \o [i \in 1..ND |-> pos[i] - c.p[i]], ConvXShape(c)) - 1)
  ELSE 0
ConvOut(c) ==
  LET osh == ConvOutShape(c) IN
  [q \in 1..Size(osh) |->
     LET oi == Unravel(q, osh) n == oi[1] f == oi[2] g == SubSeq(oi, 3, 2 + ND)
     IN SeqSum([t \in 1..(c.c * Size(c.w)) |->
                  LET ti == Unravel(t, <<c.c>> \o c.w) ch == ti[1] wi == SubSeq(ti, 2, 1 + ND)
                  IN ConvXAt(c, n, ch, [i \in 1..ND |-> g[i] * c.s[i] + wi[i] * c.d[i]])
                     * FillK(Ravel(<<f, ch>> \o wi, ConvKShape(c)) - 1)])]

\* ---------------------------------------------------------------- max_pool
PoolValid(c) == \A i \in 1..ND : c.x[i] >= c.w[i] /\ (c.x[i] - c.w[i]) % c.s[i] = 0
PoolXShape(c) == <<c.n>> \o c.x
PoolOutShape(c) == <<c.n>> \o Grid(c.x, c.w, c.s, [i \in 1..ND |-> 1])
MaxOfSeq(xs) == LET RECURSIVE M(_, _)
                    M(i, b) == IF i > Len(xs) THEN b ELSE M(i + 1, IF xs[i] > b THEN xs[i] ELSE b)
                IN M(2, xs[1])
PoolOut(c) ==
  LET osh == PoolOutShape(c) IN
  [q \in 1..Size(osh) |->
     LET oi == Unravel(q, osh) n == oi[1] g == SubSeq(oi, 2, 1 + ND)
     IN MaxOfSeq([t \in 1..Size(c.w) |->
                    LET wi == Unravel(t, c.w)
                    IN FillX(Ravel(<<n>> \o [i \in 1..ND |-> g[i] * c.s[i] + wi[i]], PoolXShape(c)) - 1)])]

\* ---------------------------------------------------------------- losses (documented formulas, evaluated naively)
\* multiclass_hinge(x, y, hinge) = (1/N) sum_i sum_{j # y_i} max(0, x_ij - x_iy + hinge) ;  labels y_i = (i * variant) mod C
PosPart(a) == IF a > 0 THEN a ELSE 0
HingeLabel(c, i) == ((i - 1) * c.variant) % c.c                      \* 0-based class of (1-based) sample i
HingeX(c, i, j) == FillX((i - 1) * c.c + j)                           \* j 0-based
\* twice the un-normalised sum (so that half-integer margins stay integral); the loss is  Hinge2Sum / (2 N)
Hinge2Sum(c) == SeqSum([i \in 1..c.n |->
                  SeqSum([jj \in 1..c.c |-> IF jj - 1 = HingeLabel(c, i) THEN 0
                                            ELSE PosPart(2 * (HingeX(c, i, jj - 1) - HingeX(c, i, HingeLabel(c, i))) + c.h2)])])
\* margin_ranking_loss(x1, x2, y, margin) = mean(max(0, margin - y (x1 - x2))) ;  y_i = +1 / -1 alternating by variant
MarginY(c, i) == IF (i + c.variant) % 2 = 0 THEN 1 ELSE -1
Margin2Sum(c) == SeqSum([i \in 1..c.n |-> PosPart(c.m2 - 2 * MarginY(c, i) * (FillX(i - 1) - FillK(i - 1)))])

NllW(c, j) == IF c.weighted THEN FillK(j) + 3 ELSE 1                  \* j 0-based; weights 1..5
NllSum(c) == SeqSum([i \in 1..c.n |-> NllW(c, HingeLabel(c, i)) * HingeX(c, i, HingeLabel(c, i))])

\* ---------------------------------------------------------------- expected outcome of every configuration
Expected(c) ==
  CASE c.kind = "sw" ->
         IF SwRule(c) THEN [accept |-> TRUE, shape |-> SwOutShape(c), gather |-> SwGather(c), kf |-> ""]
         ELSE [accept |-> FALSE, kf |-> ""]
    [] c.kind = "conv" ->
         IF ConvValid(c) /\ "big" \in DOMAIN c THEN [accept |-> TRUE, shape |-> ConvOutShape(c), kf |-> IF KF_C16_1(c) THEN "F-C16-1" ELSE ""]
         ELSE IF ConvValid(c) THEN [accept |-> TRUE, shape |-> ConvOutShape(c), vals |-> ConvOut(c),
                               kf |-> IF KF_C16_1(c) THEN "F-C16-1" ELSE ""]
         ELSE [accept |-> FALSE, kf |-> ""]
    [] c.kind = "hinge"  -> [accept |-> TRUE, num |-> Hinge2Sum(c), den |-> 2 * c.n, kf |-> ""]
    [] c.kind = "nll"    -> [accept |-> TRUE, num |-> -NllSum(c), den |-> c.n, kf |-> ""]
    [] c.kind = "margin" -> [accept |-> TRUE, num |-> Margin2Sum(c), den |-> 2 * c.n, kf |-> ""]
    [] c.kind = "pool" ->
         IF PoolValid(c) /\ "big" \in DOMAIN c THEN [accept |-> TRUE, shape |-> PoolOutShape(c), kf |-> ""]
         ELSE IF PoolValid(c) THEN [accept |-> TRUE, shape |-> PoolOutShape(c), vals |-> PoolOut(c), kf |-> ""]
         ELSE [accept |-> FALSE, kf |-> ""]

Init == cfg \in Configs
Next == UNCHANGED cfg
Spec == Init /\ [][Next]_vars
Emit == PrintT(<<"BEHAVIOUR", ToJson([cfg |-> cfg, expected |-> Expected(cfg)])>>)
=============================================================================

SPECIFICATION Spec
INVARIANT HasReference
INVARIANT RefusalRule
INVARIANT OperatorSide
INVARIANT Emit
CHECK_DEADLOCK FALSE

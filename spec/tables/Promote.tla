------------------------------- MODULE Promote -------------------------------
(* DECISION TABLE for C03: result dtype of NumPy (NEP 50) for every operand-   *)
(* kind pair and operation class, and the configuration space (operand kinds,  *)
(* shapes, memory layouts, keyword options, tracking on/off) in which MyGrad   *)
(* must return what NumPy returns.                                             *)
(* TLC enumerates the cells and decides the dtype; NumPy itself is the oracle  *)
(* for values and shapes (three-way comparison in the harness: MyGrad vs NumPy *)
(* vs this table).                                                             *)
EXTENDS Integers, Sequences, FiniteSets, TLC, Json, SequencesExt

VARIABLE cell
vars == <<cell>>

ArrDt == {"b1", "i1", "i8", "f2", "f4", "f8"}
PyKinds == {"pybool", "pyint", "pyfloat"}
IsB(d) == d = "b1"
IsI(d) == d \in {"i1", "i8"}
IsF(d) == d \in {"f2", "f4", "f8"}
FSize(d) == CASE d = "f2" -> 2 [] d = "f4" -> 4 [] d = "f8" -> 8
FOfSize(n) == CASE n = 2 -> "f2" [] n = 4 -> "f4" [] n = 8 -> "f8"
MaxN(a, b) == IF a >= b THEN a ELSE b
\* smallest float that holds every value of an integer dtype
MinFloat(d) == IF d = "i1" THEN 2 ELSE 8

\* NumPy promotion of two ARRAY dtypes
Arr2(a, b) ==
  IF a = b THEN a
  ELSE IF IsB(a) THEN b ELSE IF IsB(b) THEN a
  ELSE IF IsI(a) /\ IsI(b) THEN "i8"
  ELSE IF IsF(a) /\ IsF(b) THEN FOfSize(MaxN(FSize(a), FSize(b)))
  ELSE IF IsI(a) THEN FOfSize(MaxN(FSize(b), MinFloat(a)))
  ELSE FOfSize(MaxN(FSize(a), MinFloat(b)))
\* Python scalars are weak (NEP 50): they adopt the array's dtype unless their KIND is higher
Weak(a, p) ==
  CASE p = "pybool"  -> a
    [] p = "pyint"   -> IF IsB(a) THEN "i8" ELSE a
    [] p = "pyfloat" -> IF IsF(a) THEN a ELSE "f8"
ResultType(a, k) == IF k \in PyKinds THEN Weak(a, k) ELSE Arr2(a, k)

BinOps == {"add", "multiply", "subtract", "divide", "power", "maximum", "minimum"}
\* "ERR" = NumPy itself refuses
BinDtype(op, a, k) ==
  LET r == ResultType(a, k)
      bothbool == IsB(a) /\ (k = "b1" \/ k = "pybool")
  IN CASE op = "subtract" -> IF bothbool THEN "ERR" ELSE r
       [] op = "divide"   -> IF IsF(r) THEN r ELSE "f8"
       [] op = "power"    -> IF bothbool THEN "i1" ELSE r
       [] OTHER           -> r

FloatFuncs == {"sqrt", "exp", "log", "sin", "cos", "tanh", "arctan", "log1p", "expm1", "cbrt", "sinh"}
SameFuncs == {"absolute", "square", "reciprocal"}
SignFuncs == {"negative", "positive"}
UnDtype(f, a) == IF f \in FloatFuncs THEN (IF IsF(a) THEN a ELSE IF a = "i8" THEN "f8" ELSE "f2")
                 ELSE IF f \in SignFuncs THEN (IF IsB(a) THEN "ERR" ELSE a)
                 ELSE IF f \in {"square", "reciprocal"} /\ IsB(a) THEN "i1"      \* bool is computed in int8
                 ELSE a

RedOps == {"sum", "prod", "mean", "var", "std", "max", "min", "cumsum", "cumprod"}
RedDtype(f, a) == IF f \in {"sum", "prod", "cumsum", "cumprod"} THEN (IF IsF(a) THEN a ELSE "i8")
                  ELSE IF f \in {"mean", "var", "std"} THEN (IF IsF(a) THEN a ELSE "f8")
                  ELSE a

\* ---------------------------------------------------------------- cells
Shapes1 == {<<3>>, <<>>, <<0>>, <<2, 3>>}
BinCells == {[group |-> "binary", f |-> op, a |-> a, k |-> k, side |-> sd, shape |-> sh, layout |-> ly, opt |-> "none",
              dtype |-> BinDtype(op, a, k)] :
               op \in BinOps, a \in ArrDt, k \in ArrDt \cup PyKinds, sd \in {"left", "right"}, sh \in {<<3>>, <<>>, <<2, 3>>},
               ly \in {"contig", "strided"}}
\* keyword options on float operands: where / out / dtype / where+dtype
OptCells == {[group |-> "binary", f |-> op, a |-> a, k |-> k, side |-> "left", shape |-> <<2, 3>>, layout |-> "contig", opt |-> o,
              dtype |-> IF o \in {"dtype_f4", "where_dtype_f4"} THEN "f4" ELSE IF o \in {"dtype_f8", "where_dtype_f8", "out_f8"} THEN "f8"
                        ELSE BinDtype(op, a, k)] :
               op \in {"add", "multiply", "subtract", "divide", "maximum"}, a \in {"f4", "f8"}, k \in {"f4", "f8", "pyfloat"},
               o \in {"where", "dtype_f4", "dtype_f8", "where_dtype_f4", "where_dtype_f8", "out_f8"}}
UnCells == {[group |-> "unary", f |-> f, a |-> a, shape |-> sh, layout |-> ly, opt |-> o,
             dtype |-> IF o = "dtype_f8" THEN "f8" ELSE UnDtype(f, a)] :
               f \in FloatFuncs \cup SameFuncs \cup SignFuncs, a \in ArrDt, sh \in Shapes1, ly \in {"contig", "strided"},
               o \in {"none", "dtype_f8"}}
RedCells == {[group |-> "reduce", f |-> f, a |-> a, shape |-> sh, layout |-> ly, kw |-> k, dtype |-> RedDtype(f, a)] :
               f \in RedOps, a \in ArrDt, sh \in {<<2, 3>>, <<3>>, <<0, 3>>}, ly \in {"contig", "strided"},
               k \in {"none", "axis0", "axism1", "keepdims", "axesall", "axesempty"}}
\* functions that only move data around: same dtype, NumPy decides shape and values; every memory layout
MoveFuncs == {"reshape", "ravel", "transpose", "swapaxes", "moveaxis", "squeeze", "expand_dims", "broadcast_to", "repeat",
              "roll", "concatenate", "stack", "flatten", "T", "getitem"}
MoveCells == {[group |-> "move", f |-> f, a |-> a, layout |-> ly, variant |-> v, dtype |-> a] :
               f \in MoveFuncs, a \in {"f8", "f4", "i8", "b1"}, ly \in {"contig", "transposed", "strided", "fortran"}, v \in {1, 2}}
\* matmul / einsum / where / clip
MiscCells == {[group |-> "misc", f |-> f, a |-> a, k |-> k, layout |-> ly, dtype |-> Arr2(a, k)] :
               f \in {"matmul", "where", "einsum_mv"}, a \in {"f4", "f8", "i8"}, k \in {"f4", "f8", "i8"}, ly \in {"contig", "transposed"}}

Cells == BinCells \cup OptCells \cup UnCells \cup RedCells \cup MoveCells \cup MiscCells

\* ---------------------------------------------------------------- sanity of the promotion table
Commutes == cell.group = "binary" /\ cell.k \in ArrDt => Arr2(cell.a, cell.k) = Arr2(cell.k, cell.a)
NeverNarrower == (cell.group = "binary" /\ cell.k \in ArrDt /\ IsF(cell.a) /\ cell.dtype # "ERR" /\ cell.opt = "none")
                 => (IsF(cell.dtype) /\ FSize(cell.dtype) >= FSize(cell.a))
WeakScalarsKeepPrecision == (cell.group = "binary" /\ cell.k \in PyKinds /\ IsF(cell.a) /\ cell.opt = "none") => cell.dtype = cell.a

Init == cell \in Cells
Next == UNCHANGED cell
Spec == Init /\ [][Next]_vars
Emit == PrintT(<<"BEHAVIOUR", ToJson([cell |-> cell])>>)
=============================================================================

------------------------------ MODULE Dispatch ------------------------------
(* DECISION TABLE for C11: every public entry point to an operation.           *)
(*                                                                             *)
(* For each operation: the set of spellings that must be one and the same      *)
(* operation (MyGrad function, NumPy function / ufunc applied to tensors,      *)
(* Tensor method, operator, reflected operator, augmented operator, out=       *)
(* forms), the operand-kind combinations and argument cases to try, and the    *)
(* KIND of result every spelling must produce:                                 *)
(*    "tensor"     differentiable operation: a Tensor, same values / dtype /   *)
(*                 constant flag / gradients for every spelling;               *)
(*    "ndarray"    boolean-valued ufuncs and non-differentiable NumPy          *)
(*                 functions: a plain array;                                   *)
(*    "ValueError" the rounding / modulo family on a non-constant tensor.      *)
(* TLC enumerates the cells and checks the table's own consistency; the        *)
(* harness executes every cell and compares all spellings of a cell.           *)
EXTENDS Integers, Sequences, FiniteSets, TLC, Json, SequencesExt

VARIABLE cell
vars == <<cell>>

\* ---------------------------------------------------------------- differentiable ufuncs
BinaryU == {"add", "subtract", "multiply", "divide", "power", "maximum", "minimum", "logaddexp", "logaddexp2", "arctan2"}
UnaryU  == {"absolute", "negative", "positive", "reciprocal", "square", "sqrt", "cbrt", "exp", "exp2", "expm1",
            "log", "log2", "log10", "log1p", "sin", "cos", "tan", "arcsin", "arccos", "arctan",
            "sinh", "cosh", "tanh", "arcsinh", "arccosh", "arctanh"}
\* value domain in which the function (and its derivative) is defined: harness picks operand values accordingly
Domain(f) == CASE f \in {"sqrt", "log", "log2", "log10", "power", "reciprocal", "cbrt"} -> "pos"
               [] f \in {"arcsin", "arccos", "arctanh"} -> "unit"
               [] f \in {"arccosh"} -> "gt1"
               [] f \in {"log1p"} -> "pos"
               [] OTHER -> "any"

OperatorOf(f) == CASE f = "add" -> "+" [] f = "subtract" -> "-" [] f = "multiply" -> "*" [] f = "divide" -> "/"
                   [] f = "power" -> "**" [] f = "matmul" -> "@" [] f = "negative" -> "neg" [] f = "positive" -> "pos"
                   [] OTHER -> ""       \* (Tensor defines no __abs__: abs(t) is not an entry point)
\* spellings of a binary ufunc
BinSpellings(f) == {"mg", "np", "mg_out", "np_out", "mg_where_out"}
                   \cup (IF OperatorOf(f) # "" THEN {"op", "rop", "iop"} ELSE {})
UnSpellings(f) == {"mg", "np", "mg_out", "np_out"} \cup (IF OperatorOf(f) # "" THEN {"op"} ELSE {})

\* operand-kind combinations (first operand, second operand)
\*   v = non-constant tensor, c = constant tensor, a = ndarray, s = Python scalar
BinOperands == {<<"v", "v">>, <<"v", "c">>, <<"c", "v">>, <<"v", "a">>, <<"a", "v">>, <<"v", "s">>, <<"s", "v">>, <<"c", "c">>, <<"c", "a">>}
\* which spellings make sense for an operand combination: the Tensor must be on the left of op / iop, on the right of rop
SpellingOK(sp, ops) ==
  CASE sp \in {"op", "iop"} -> ops[1] \in {"v", "c"}
    [] sp = "rop" -> ops[2] \in {"v", "c"} /\ ops[1] \in {"a", "s"}
    [] sp \in {"mg_out", "np_out", "mg_where_out"} -> TRUE
    [] OTHER -> TRUE
\* shape cases: (shape of first, shape of second)
BinShapes == {<<<<3>>, <<3>>>>, <<<<2, 3>>, <<3>>>>, <<<<>>, <<3>>>>, <<<<3>>, <<>>>>, <<<<3>>, <<1, 1>>>>, <<<<>>, <<1>>>>, <<<<2, 1>>, <<1, 3>>>>}
\* special exponents exercising the x**1 / x**2 fast paths of the operator
PowExponents == {"generic", "one", "two"}

\* commutative functions: the commuted call f(y, x) is one more spelling of f(x, y) (values, dtype, shape)
Commutative == {"add", "multiply", "maximum", "minimum", "logaddexp", "logaddexp2"}
\* dtype of the tensor operands: float64, and - where a Python scalar takes part - also float32 (a scalar must stay
\* "weak" whichever side it stands on, whichever spelling is used)
BinDtypes(o) == {"f8"} \cup (IF "s" \in {o[1], o[2]} THEN {"f4"} ELSE {})
BinCells == UNION {{[group |-> "binary", f |-> f, operands |-> o, shapes |-> sh, dt |-> d,
                     spellings |-> {sp \in BinSpellings(f) : SpellingOK(sp, o)}
                                   \cup (IF f \in Commutative /\ o[1] # o[2] THEN {"commuted"} ELSE {}),
                     exponent |-> e, domain |-> Domain(f), kind |-> "tensor"] :
                      o \in BinOperands, sh \in BinShapes, d \in {"f8", "f4"},
                      e \in (IF f = "power" THEN PowExponents ELSE {"generic"})} : f \in BinaryU}
BinCellsOK == {c \in BinCells : c.dt \in BinDtypes(c.operands)}
UnCells == {[group |-> "unary", f |-> f, operand |-> o, shape |-> sh, spellings |-> UnSpellings(f),
             domain |-> Domain(f), kind |-> "tensor"] :
               f \in UnaryU, o \in {"v", "c"}, sh \in {<<3>>, <<2, 2>>, <<>>, <<0>>}}

\* ---------------------------------------------------------------- matmul
MatCells == {[group |-> "matmul", f |-> "matmul", operands |-> o, shapes |-> sh,
              spellings |-> {sp \in {"mg", "np", "op", "rop"} : SpellingOK(sp, o)}, kind |-> "tensor"] :
               o \in {<<"v", "v">>, <<"v", "c">>, <<"v", "a">>, <<"a", "v">>},
               sh \in {<<<<2, 3>>, <<3, 2>>>>, <<<<3>>, <<3>>>>, <<<<2, 3>>, <<3>>>>, <<<<3>>, <<3, 2>>>>, <<<<2, 2, 3>>, <<3, 1>>>>}}

\* ---------------------------------------------------------------- reductions / cumulative: function, NumPy function, method
Reductions == {"sum", "mean", "prod", "max", "min", "var", "std", "cumsum", "cumprod"}
RedKw(f) == IF f \in {"cumsum", "cumprod"} THEN {"none", "axis0", "axism1"}
            ELSE {"none", "axis0", "axism1", "keepdims", "axes01"} \cup (IF f \in {"var", "std"} THEN {"ddof1"} ELSE {})
RedCells == UNION {{[group |-> "reduce", f |-> f, operand |-> o, shape |-> sh, kw |-> k,
                     spellings |-> {"mg", "np", "method"} \cup (IF f \in {"max", "min"} THEN {"np_alias"} ELSE {}),
                     kind |-> "tensor"] :
                      o \in {"v", "c"}, sh \in {<<2, 3>>, <<2, 2, 2>>}, k \in RedKw(f)} : f \in Reductions}

\* ---------------------------------------------------------------- shape manipulation
ShapeOps == [reshape   |-> [args |-> {"flat", "minus1", "tuple32"}, sp |-> {"mg", "np", "method", "method_star"}],
             transpose |-> [args |-> {"none", "perm"}, sp |-> {"mg", "np", "method", "method_star", "T"}],
             swapaxes  |-> [args |-> {"a02", "am1_0"}, sp |-> {"mg", "np", "method"}],
             moveaxis  |-> [args |-> {"m02", "m20", "multi"}, sp |-> {"mg", "np", "method"}],
             squeeze   |-> [args |-> {"none", "axis"}, sp |-> {"mg", "np", "method"}],
             \* flattening in C order, however it is spelled - also of a transposed (Fortran-contiguous) operand
             ravel     |-> [args |-> {"none", "ofT"}, sp |-> {"mg", "np", "method", "flatten", "reshape_m1", "np_reshape_m1"}],
             clip      |-> [args |-> {"both", "lo", "hi"}, sp |-> {"mg", "np", "method"}],
             expand_dims |-> [args |-> {"ax0", "axm1"}, sp |-> {"mg", "np"}],
             broadcast_to |-> [args |-> {"lead2"}, sp |-> {"mg", "np"}],
             repeat    |-> [args |-> {"r2ax0", "r3axm1"}, sp |-> {"mg", "np"}],
             roll      |-> [args |-> {"s1ax0", "sm1ax1"}, sp |-> {"mg", "np"}],
             concatenate |-> [args |-> {"ax0", "axm1"}, sp |-> {"mg", "np"}],
             stack     |-> [args |-> {"ax0", "axm1"}, sp |-> {"mg", "np"}],
             where     |-> [args |-> {"mask"}, sp |-> {"mg", "np"}],
             einsum    |-> [args |-> {"matvec", "trace", "outer"}, sp |-> {"mg", "np"}],
             atleast_1d |-> [args |-> {"from0d"}, sp |-> {"mg", "np"}],
             atleast_2d |-> [args |-> {"from0d", "from1d"}, sp |-> {"mg", "np"}],
             atleast_3d |-> [args |-> {"from0d", "from1d", "from2d"}, sp |-> {"mg", "np"}],
             norm      |-> [args |-> {"vec2", "vec1", "axis0", "axism1_keepdims"}, sp |-> {"mg", "np"}],
             \* creation from a prototype: the NumPy function applied to a tensor is MyGrad's own routine (a Tensor comes back)
             zeros_like |-> [args |-> {"proto"}, sp |-> {"mg", "np"}],
             ones_like  |-> [args |-> {"proto"}, sp |-> {"mg", "np"}],
             full_like  |-> [args |-> {"proto"}, sp |-> {"mg", "np"}]]
\* the `T` property and the no-axes transpose only coincide without arguments
ShapeSpellings(f, a) == IF f = "transpose" /\ a # "none" THEN ShapeOps[f].sp \ {"T"} ELSE ShapeOps[f].sp
ShapeCells == {[group |-> "shape", f |-> f, arg |-> a, operand |-> o, spellings |-> ShapeSpellings(f, a), kind |-> "tensor"] :
                 f \in DOMAIN ShapeOps, a \in UNION {ShapeOps[g].args : g \in DOMAIN ShapeOps}, o \in {"v", "c"}}
ShapeCellsOK == {c \in ShapeCells : c.arg \in ShapeOps[c.f].args}

\* ---------------------------------------------------------------- non-differentiable entry points
BoolU  == {"equal", "not_equal", "greater", "greater_equal", "less", "less_equal", "isnan", "isfinite", "isinf",
           "signbit", "logical_not", "logical_and", "logical_or", "logical_xor"}
ConstU == {"floor_divide", "remainder", "mod", "fmod", "rint", "sign", "floor", "ceil", "trunc"}
NoDiffF == {"allclose", "isclose", "shape", "shares_memory", "may_share_memory", "result_type"}
\* non-differentiable functions of ONE tensor: a plain array / scalar / dtype comes back
NoDiffUnary == {"any", "argmax", "argmin", "min_scalar_type", "bincount"}
UnaryOnly == {"isnan", "isfinite", "isinf", "signbit", "logical_not", "rint", "sign", "floor", "ceil", "trunc"}
\* operand combinations for the const-only family; `out` = a tensor passed as out=
ConstOperands == {<<"v">>, <<"c">>, <<"v", "c">>, <<"c", "v">>, <<"c", "c">>, <<"a", "v">>, <<"c", "a">>, <<"s", "v">>,
                  <<"c", "out:v">>, <<"a", "out:v">>, <<"c", "out:c">>}
Arity(f) == IF f \in UnaryOnly THEN 1 ELSE 2
ConstKind(o) == IF \E i \in 1..Len(o) : o[i] \in {"v", "out:v"} THEN "ValueError" ELSE "ndarray"
NonDiffCells ==
  UNION {{[group |-> "boolufunc", f |-> f, operands |-> o, spellings |-> {"np"}, kind |-> "ndarray"] :
            o \in {x \in {<<"v">>, <<"c">>, <<"v", "c">>, <<"a", "v">>, <<"v", "s">>} : Len(x) = Arity(f)}} : f \in BoolU}
  \cup UNION {{[group |-> "constufunc", f |-> f, operands |-> o,
                spellings |-> {"np"} \cup (IF f = "floor_divide" THEN {"op"} ELSE {}), kind |-> ConstKind(o)] :
            o \in {x \in ConstOperands :
                     Cardinality({i \in 1..Len(x) : x[i] \notin {"out:v", "out:c"}}) = Arity(f)}} : f \in ConstU}
  \cup {[group |-> "nodiff", f |-> f, operands |-> o, spellings |-> {"np"}, kind |-> "ndarray"] :
     f \in NoDiffF, o \in {<<"v", "v">>, <<"v", "a">>}}
  \cup {[group |-> "nodiff1", f |-> f, operands |-> o, spellings |-> {"np"}, kind |-> "ndarray"] :
     f \in NoDiffUnary, o \in {<<"v">>, <<"c">>}}
  \* divmod belongs to the refusing family (two outputs)
  \cup {[group |-> "constufunc", f |-> "divmod", operands |-> o, spellings |-> {"np"}, kind |-> ConstKind(o)] :
     o \in {<<"v", "c">>, <<"c", "v">>, <<"c", "c">>, <<"a", "v">>, <<"c", "a">>, <<"s", "v">>}}

Cells == BinCellsOK \cup UnCells \cup MatCells \cup RedCells \cup ShapeCellsOK \cup NonDiffCells

\* ---------------------------------------------------------------- consistency of the table itself
\* every differentiable cell has the MyGrad function as the reference spelling and at least one other spelling
HasReference == cell.kind = "tensor" => ("mg" \in cell.spellings /\ Cardinality(cell.spellings) >= 2)
\* the refusing family refuses exactly when a non-constant tensor is involved, wherever it stands
RefusalRule == cell.group = "constufunc" =>
                 (cell.kind = "ValueError" <=> \E i \in 1..Len(cell.operands) : cell.operands[i] \in {"v", "out:v"})
\* an operator spelling always has the tensor on the side Python dispatches to
OperatorSide == (cell.group \in {"binary", "matmul"} /\ "rop" \in cell.spellings) => cell.operands[2] \in {"v", "c"}

Init == cell \in Cells
Next == UNCHANGED cell
Spec == Init /\ [][Next]_vars
Emit == PrintT(<<"BEHAVIOUR", ToJson([cell |-> [cell EXCEPT !.spellings = SetToSeq(@)]])>>)
=============================================================================

------------------------------- MODULE Retry -------------------------------
(* DECISION TABLE for the last clause of C09: "... whatever happened in       *)
(* between (in-place updates, re-use of the shared tensors in new operations, *)
(* FURTHER BACKWARD CALLS)".                                                  *)
(*                                                                            *)
(* History of a cell:                                                         *)
(*    P = op(inputs)               the operation under test                   *)
(*    Q = 3 w ;  (1 w).sum().backward()    another graph clears w: Q's graph  *)
(*                                         is now partially cleared           *)
(*    L = P.sum() + Q.sum()  or  Q.sum() + P.sum()      (order)               *)
(*    L.backward(g1)               first attempt: refused on reaching w -      *)
(*                                 possibly AFTER the traversal passed `op`   *)
(*    [ w + 0 ]                    optionally: w is used again                *)
(*    L.backward(g2)               second attempt, possibly another gradient  *)
(* Every attempt must either be refused with InvalidBackprop or leave exactly *)
(* the gradients of the recorded computation FOR THE GRADIENT OF THAT ATTEMPT *)
(* (an operation that keeps state from an earlier, aborted pass - a cached    *)
(* product, consumed counters, a buffer scaled in place - breaks this).       *)
(* While w has no consumer the attempt must be refused.                       *)
(* TLC enumerates the cells and states the admissible outcomes; the harness   *)
(* runs every cell; the reference gradients are those of a freshly recorded   *)
(* copy of the computation (decided, per operation, by C02's tables).         *)
EXTENDS Integers, Sequences, FiniteSets, TLC, Json

VARIABLE cell
vars == <<cell>>

Ops == {"multiply_sequence", "add_sequence", "einsum", "multiply_chain", "maximum_chain", "where", "matmul", "stack",
        "focal_loss", "softmax_crossentropy", "multiclass_hinge", "conv_nd", "max_pool", "batchnorm", "prod", "cumprod", "var",
        "gru", "arctan2", "softmax", "logsoftmax", "selu", "norm", "std", "margin_ranking", "minimum_chain", "getitem_adv", "repeat"}
Cells == {[op |-> op, order |-> p, g1 |-> g[1], g2 |-> g[2], reuse |-> r] :
            op \in Ops, p \in 1..2, g \in {<<1, 1>>, <<1, 2>>, <<2, 3>>}, r \in BOOLEAN}
Relevant(c) == TRUE

\* admissible outcomes of the two attempts
Expected(c) == [first  |-> {"InvalidBackprop"},                                      \* c has no consumer: refused
                second |-> IF c.reuse THEN {"InvalidBackprop", "exact"} ELSE {"InvalidBackprop"}]

ToSeq(S) == IF S = {"InvalidBackprop"} THEN <<"InvalidBackprop">> ELSE <<"InvalidBackprop", "exact">>
Init == cell \in {c \in Cells : Relevant(c)}
Next == UNCHANGED cell
Spec == Init /\ [][Next]_vars
\* the table is total over the operations and both orders of the two terms
Total == \A op \in Ops : \A p \in 1..2 : \E c \in Cells : c.op = op /\ c.order = p
Emit == PrintT(<<"BEHAVIOUR", ToJson([cell |-> cell, expected |-> [first |-> ToSeq(Expected(cell).first),
                                                                   second |-> ToSeq(Expected(cell).second)]])>>)
=============================================================================

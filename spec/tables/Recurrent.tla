------------------------------ MODULE Recurrent ------------------------------
(* DECISION TABLE for the gated recurrent unit (C16: the layer equals its      *)
(* documented equations; C02: its vector-Jacobian product).                    *)
(*                                                                             *)
(*     Z_t = sigmoid(X_t Uz + S_{t-1} Wz + bz)                                 *)
(*     R_t = sigmoid(X_t Ur + S_{t-1} Wr + br)                                 *)
(*     H_t =    tanh(X_t Uh + (R_t * S_{t-1}) Wh + bh)                         *)
(*     S_t = (1 - Z_t) * H_t + Z_t * S_{t-1}          S_0 = s0 (zeros if none) *)
(*                                                                             *)
(* sigmoid and tanh are irrational, so - as in Kernels.tla - the specification *)
(* states the layer as EXPRESSIONS and the harness evaluates them in extended  *)
(* precision.  For every cell (T, N, C, D, kind of s0, which inputs are        *)
(* constant) TLC unrolls the documented recurrence, element by element, into a *)
(* straight-line program                                                       *)
(*        <<name, expression over input leaves and earlier names>>             *)
(* (no backward rule is written: the harness evaluates the program over        *)
(* forward-mode dual numbers and reads the vector-Jacobian product off the     *)
(* tangents), checks the table's own invariants                                *)
(*   - WellFormed : every reference points to an earlier definition;           *)
(*   - Causal     : S_t refers to X_u only for u <= t;                         *)
(*   - Complete   : S has (T+1) N D defined elements,                          *)
(* and emits the cell.  The harness runs mygrad.nnet.layers.gru on the same    *)
(* data and compares S (1e-10 relative) and the gradient of every input        *)
(* (1e-8 relative).                                                            *)
EXTENDS Integers, Sequences, FiniteSets, TLC, Json

VARIABLE cell
vars == <<cell>>

\* expressions: <<"in", tensor, i, j, k>> (0-based indices, unused ones 0) | <<"ref", name>> | <<"c", n>> |
\*              <<"add", e1, e2>> | <<"sub", e1, e2>> | <<"mul", e1, e2>> | <<"sigmoid", e>> | <<"tanh", e>>
\* names: <<kind, t, n, d>> with kind in {"Z", "R", "H", "S"}
In(x, i, j, k) == <<"in", x, i, j, k>>
Ref(kind, t, n, d) == <<"ref", <<kind, t, n, d>>>>
RECURSIVE SumE(_)
SumE(es) == IF Len(es) = 1 THEN es[1] ELSE <<"add", SumE(SubSeq(es, 1, Len(es) - 1)), es[Len(es)]>>

Prev(c, t, n, k) == IF t = 1 THEN (IF c.s0 = "none" THEN <<"c", 0>> ELSE In("s0", n, k, 0)) ELSE Ref("S", t - 1, n, k)
\* X_t U + pre W + b  for output unit d of sample n;  pre(k) is the expression that multiplies row k of W (0-based)
Affine(c, t, n, d, U, W, b, pre(_)) ==
  SumE([i \in 1..c.C |-> <<"mul", In("X", t - 1, n, i - 1), In(U, i - 1, d, 0)>>]
       \o [k \in 1..c.D |-> <<"mul", pre(k - 1), In(W, k - 1, d, 0)>>]
       \o <<In(b, d, 0, 0)>>)

Defs(c, t, n, d) ==
  LET prev(k) == Prev(c, t, n, k)
  IN << [name |-> <<"Z", t, n, d>>, e |-> <<"sigmoid", Affine(c, t, n, d, "Uz", "Wz", "bz", prev)>>],
        [name |-> <<"R", t, n, d>>, e |-> <<"sigmoid", Affine(c, t, n, d, "Ur", "Wr", "br", prev)>>] >>
DefsH(c, t, n, d) ==
  LET rprev(k) == <<"mul", Ref("R", t, n, k), Prev(c, t, n, k)>>
  IN << [name |-> <<"H", t, n, d>>, e |-> <<"tanh", Affine(c, t, n, d, "Uh", "Wh", "bh", rprev)>>],
        [name |-> <<"S", t, n, d>>,
         e |-> <<"add", <<"mul", <<"sub", <<"c", 1>>, Ref("Z", t, n, d)>>, Ref("H", t, n, d)>>,
                        <<"mul", Ref("Z", t, n, d), Prev(c, t, n, d)>>>>] >>

RECURSIVE Concat(_)
Concat(ss) == IF ss = <<>> THEN <<>> ELSE Head(ss) \o Concat(Tail(ss))
\* per time step: all Z and R of the step first (H needs every R of the step), then H and S
Step(c, t) ==
  Concat([p \in 1..(c.N * c.D) |-> Defs(c, t, (p - 1) \div c.D, (p - 1) % c.D)])
  \o Concat([p \in 1..(c.N * c.D) |-> DefsH(c, t, (p - 1) \div c.D, (p - 1) % c.D)])
Program(c) == Concat([t \in 1..c.T |-> Step(c, t)])

\* ---------------------------------------------------------------- cells
Sizes == {<<1, 1, 1, 1>>, <<2, 1, 2, 1>>, <<2, 2, 1, 2>>, <<3, 1, 2, 2>>, <<3, 2, 2, 2>>, <<1, 2, 3, 2>>, <<4, 1, 1, 1>>}     \* <<T, N, C, D>>
\* which inputs are constant tensors / plain arrays: "none" all variable; "X" the data; "W" the three hidden-hidden matrices;
\* "b" the biases given as arrays
Cells == {[T |-> z[1], N |-> z[2], C |-> z[3], D |-> z[4], s0 |-> s, const |-> k] :
            z \in Sizes, s \in {"none", "array", "tensor"}, k \in {"none", "X", "W", "b"}}

\* ---------------------------------------------------------------- the table's own invariants
RECURSIVE Refs(_)
Refs(e) == IF e[1] = "ref" THEN {e[2]}
           ELSE IF e[1] \in {"in", "c"} THEN {}
           ELSE IF e[1] \in {"sigmoid", "tanh"} THEN Refs(e[2])
           ELSE Refs(e[2]) \cup Refs(e[3])
RECURSIVE XTimes(_)
XTimes(e) == IF e[1] = "in" THEN (IF e[2] = "X" THEN {e[3] + 1} ELSE {})
             ELSE IF e[1] \in {"ref", "c"} THEN {}
             ELSE IF e[1] \in {"sigmoid", "tanh"} THEN XTimes(e[2])
             ELSE XTimes(e[2]) \cup XTimes(e[3])
WellFormed == LET p == Program(cell) IN
  \A i \in 1..Len(p) : \A r \in Refs(p[i].e) : \E j \in 1..(i - 1) : p[j].name = r
Causal == LET p == Program(cell) IN
  \A i \in 1..Len(p) : (\A u \in XTimes(p[i].e) : u = p[i].name[2])                 \* a definition of step t reads X_t only ...
                       /\ (\A r \in Refs(p[i].e) : r[2] <= p[i].name[2])            \* ... and names of steps <= t
Complete == LET p == Program(cell) IN
  {p[i].name : i \in {j \in 1..Len(p) : p[j].name[1] = "S"}} =
     {<<"S", t, n, d>> : t \in 1..cell.T, n \in 0..(cell.N - 1), d \in 0..(cell.D - 1)}

Init == cell \in Cells
Next == UNCHANGED cell
Spec == Init /\ [][Next]_vars
Emit == PrintT(<<"BEHAVIOUR", ToJson([cell |-> cell, program |-> Program(cell)])>>)
=============================================================================

----------------------------- MODULE LayerTyping -----------------------------
(* DECISION TABLE for the nnet part of C14 (and of C12): for every layer /     *)
(* activation / loss and every assignment of float dtypes to its tensor        *)
(* inputs, after backward() every input's .grad must be an ndarray with        *)
(* exactly that input's shape and dtype; the caller's seed array must not be   *)
(* modified (C12).  TLC enumerates the cells; the harness executes them.       *)
EXTENDS Integers, Sequences, FiniteSets, TLC, Json, SequencesExt

VARIABLE cell
vars == <<cell>>
Dts == {"f8", "f4", "f2"}
\* layer |-> number of tensor inputs that receive gradients
Arity == [relu |-> 1, sigmoid |-> 1, tanh |-> 1, elu |-> 1, selu |-> 1, leaky_relu |-> 1, hard_tanh |-> 1, soft_sign |-> 1, glu |-> 1,
          softmax |-> 1, logsoftmax |-> 1, softmax_crossentropy |-> 1, focal_loss |-> 1, softmax_focal_loss |-> 1,
          negative_log_likelihood |-> 1, multiclass_hinge |-> 1, margin_ranking_loss |-> 2,
          conv_nd |-> 2, max_pool |-> 1, batchnorm |-> 3, gru |-> 10]
Tuples(n) == IF n = 1 THEN {<<a>> : a \in Dts}
             ELSE IF n = 2 THEN {<<a, b>> : a \in Dts, b \in Dts}
             ELSE IF n = 3 THEN {<<a, b, c>> : a \in {"f8", "f4"}, b \in {"f8", "f4"}, c \in {"f8", "f4"}}
             \* GRU: X, then the nine weight tensors; dtypes vary on X, bz, br, bh (the others follow X)
             ELSE {<<x, x, x, bz, x, x, br, x, x, bh>> : x \in {"f8", "f4"}, bz \in {"f8", "f4"}, br \in {"f8", "f4"}, bh \in {"f8", "f4"}}
Cells == UNION {{[layer |-> l, dtypes |-> t, seed |-> sd] : t \in Tuples(Arity[l]), sd \in {"none", "array"}} : l \in DOMAIN Arity}

\* KNOWN FINDINGS on the unchanged tree (DESIGN section 7)
KF(c) == IF c.layer = "gru" THEN {"F-C14-1"} ELSE {}

EveryLayerHasCells == \A l \in DOMAIN Arity : \E c \in Cells : c.layer = l
Init == cell \in Cells
Next == UNCHANGED cell
Spec == Init /\ [][Next]_vars
Emit == PrintT(<<"BEHAVIOUR", ToJson([cell |-> cell, kf |-> SetToSeq(KF(cell))])>>)
=============================================================================

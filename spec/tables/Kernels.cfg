SPECIFICATION Spec
INVARIANT EveryUnaryHasDomain
INVARIANT DomainsNonEmpty
INVARIANT OddDomainsBothSigns
INVARIANT ConventionsListed
INVARIANT Emit
CHECK_DEADLOCK FALSE

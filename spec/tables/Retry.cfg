SPECIFICATION Spec
INVARIANT Total
INVARIANT Emit
CHECK_DEADLOCK FALSE

------------------------------ MODULE Construct ------------------------------
(* DECISION TABLES for C17 (construction / conversion) and C18 (save / load).  *)
(*                                                                             *)
(* Construction: transcription of mygrad.tensor(), Tensor.__init__ (NumPy-2    *)
(* branch), astensor(), asarray(), Tensor.copy(), Tensor.astype().  Every cell *)
(* of  input kind x dtype x constant x copy x ndmin x entry point  is an       *)
(* initial state; TLC checks the claims of C17 on the table and emits the      *)
(* predicted outcome of every cell; the harness executes every cell.           *)
EXTENDS Integers, Sequences, FiniteSets, TLC, Json

CONSTANT Table      \* "construct" | "convert" | "saveload" | "creation"
VARIABLE cell
vars == <<cell>>

\* ---------------------------------------------------------------- input kinds
\* name |-> [isT (tensor), isA (ndarray), dt, const, hasGraph, hasGrad, isView, ro, nd]
Kinds == [
  pyfloat   |-> [isT |-> FALSE, isA |-> FALSE, dt |-> "f8",  const |-> FALSE, graph |-> FALSE, grad |-> FALSE, view |-> FALSE, buf |-> FALSE, nd |-> 0],
  pyint     |-> [isT |-> FALSE, isA |-> FALSE, dt |-> "i8",  const |-> FALSE, graph |-> FALSE, grad |-> FALSE, view |-> FALSE, buf |-> FALSE, nd |-> 0],
  listf     |-> [isT |-> FALSE, isA |-> FALSE, dt |-> "f8",  const |-> FALSE, graph |-> FALSE, grad |-> FALSE, view |-> FALSE, buf |-> FALSE, nd |-> 1],
  listi     |-> [isT |-> FALSE, isA |-> FALSE, dt |-> "i8",  const |-> FALSE, graph |-> FALSE, grad |-> FALSE, view |-> FALSE, buf |-> FALSE, nd |-> 1],
  arrf8     |-> [isT |-> FALSE, isA |-> TRUE,  dt |-> "f8",  const |-> FALSE, graph |-> FALSE, grad |-> FALSE, view |-> FALSE, buf |-> FALSE, nd |-> 1],
  arrf4     |-> [isT |-> FALSE, isA |-> TRUE,  dt |-> "f4",  const |-> FALSE, graph |-> FALSE, grad |-> FALSE, view |-> FALSE, buf |-> FALSE, nd |-> 1],
  arrview   |-> [isT |-> FALSE, isA |-> TRUE,  dt |-> "f8",  const |-> FALSE, graph |-> FALSE, grad |-> FALSE, view |-> TRUE,  buf |-> FALSE, nd |-> 1],
  arrT      |-> [isT |-> FALSE, isA |-> TRUE,  dt |-> "f8",  const |-> FALSE, graph |-> FALSE, grad |-> FALSE, view |-> TRUE,  buf |-> FALSE, nd |-> 2],
  arrF      |-> [isT |-> FALSE, isA |-> TRUE,  dt |-> "f8",  const |-> FALSE, graph |-> FALSE, grad |-> FALSE, view |-> FALSE, buf |-> FALSE, nd |-> 2],
  arri8     |-> [isT |-> FALSE, isA |-> TRUE,  dt |-> "i8",  const |-> FALSE, graph |-> FALSE, grad |-> FALSE, view |-> FALSE, buf |-> FALSE, nd |-> 1],
  arrc16    |-> [isT |-> FALSE, isA |-> TRUE,  dt |-> "c16", const |-> FALSE, graph |-> FALSE, grad |-> FALSE, view |-> FALSE, buf |-> FALSE, nd |-> 1],
  tleaf     |-> [isT |-> TRUE,  isA |-> FALSE, dt |-> "f8",  const |-> FALSE, graph |-> FALSE, grad |-> FALSE, view |-> FALSE, buf |-> FALSE, nd |-> 1],
  tconst    |-> [isT |-> TRUE,  isA |-> FALSE, dt |-> "f8",  const |-> TRUE,  graph |-> FALSE, grad |-> FALSE, view |-> FALSE, buf |-> FALSE, nd |-> 1],
  tint      |-> [isT |-> TRUE,  isA |-> FALSE, dt |-> "i8",  const |-> TRUE,  graph |-> FALSE, grad |-> FALSE, view |-> FALSE, buf |-> FALSE, nd |-> 1],
  tgraph    |-> [isT |-> TRUE,  isA |-> FALSE, dt |-> "f8",  const |-> FALSE, graph |-> TRUE,  grad |-> FALSE, view |-> FALSE, buf |-> FALSE, nd |-> 1],
  tgrad     |-> [isT |-> TRUE,  isA |-> FALSE, dt |-> "f8",  const |-> FALSE, graph |-> FALSE, grad |-> TRUE,  view |-> FALSE, buf |-> FALSE, nd |-> 1],
  tview     |-> [isT |-> TRUE,  isA |-> FALSE, dt |-> "f8",  const |-> FALSE, graph |-> TRUE,  grad |-> FALSE, view |-> TRUE,  buf |-> FALSE, nd |-> 1],
  tT        |-> [isT |-> TRUE,  isA |-> FALSE, dt |-> "f8",  const |-> FALSE, graph |-> TRUE,  grad |-> FALSE, view |-> TRUE,  buf |-> FALSE, nd |-> 2],
  tf4       |-> [isT |-> TRUE,  isA |-> FALSE, dt |-> "f4",  const |-> FALSE, graph |-> FALSE, grad |-> FALSE, view |-> FALSE, buf |-> FALSE, nd |-> 1],
  \* objects that are neither tensors nor ndarrays but expose their memory (buffer protocol / __array_interface__):
  \* np.asarray wraps that memory without copying, so "copy by default" must copy them too
  bufarr    |-> [isT |-> FALSE, isA |-> FALSE, dt |-> "f8",  const |-> FALSE, graph |-> FALSE, grad |-> FALSE, view |-> FALSE, buf |-> TRUE,  nd |-> 1],
  memview   |-> [isT |-> FALSE, isA |-> FALSE, dt |-> "f8",  const |-> FALSE, graph |-> FALSE, grad |-> FALSE, view |-> FALSE, buf |-> TRUE,  nd |-> 1],
  iface     |-> [isT |-> FALSE, isA |-> FALSE, dt |-> "f8",  const |-> FALSE, graph |-> FALSE, grad |-> FALSE, view |-> FALSE, buf |-> TRUE,  nd |-> 1]
]
KindNames == DOMAIN Kinds
IsFloat(dt) == dt \in {"f8", "f4", "f2"}
IsIntLike(dt) == dt \in {"i8", "i4", "b1"}

DtArgs == {"none", "f8", "f4", "i8", "c16"}
ConstArgs == {"none", "true", "false"}

\* ---------------------------------------------------------------- tensor() / Tensor() / astensor()
ConstructCells == {[entry |-> e, kind |-> k, dtype |-> d, constant |-> c, copy |-> cp, ndmin |-> n] :
                     e \in {"tensor", "Tensor", "astensor"}, k \in KindNames, d \in DtArgs, c \in ConstArgs,
                     cp \in BOOLEAN, n \in {0, 3}}
\* astensor has no copy / ndmin parameters: one representative cell
RelevantConstruct(c) == c.entry = "astensor" => (~c.copy /\ c.ndmin = 0)

ResDtype(k, d) == IF d = "none" THEN Kinds[k].dt ELSE d
\* `tensor(t, copy=False)` hands the input tensor back when constant and dtype already match
PassThrough(c) == /\ c.entry \in {"tensor", "astensor"} /\ Kinds[c.kind].isT /\ ~c.copy
                  /\ (c.constant = "none" \/ (c.constant = "true") = Kinds[c.kind].const)
                  /\ (c.dtype = "none" \/ c.dtype = Kinds[c.kind].dt)
Outcome(c) ==
  LET k == Kinds[c.kind] rd == ResDtype(c.kind, c.dtype)
      copy == IF c.entry = "astensor" THEN FALSE ELSE c.copy
  IN
  IF PassThrough(c) THEN
     \* ndmin > ndim: a VIEW of the input (a graph operation: indexing with new axes)
     IF c.ndmin > k.nd
     THEN [raises |-> "none", isinput |-> FALSE, shares |-> TRUE, dtype |-> k.dt, constant |-> k.const,
           creatornone |-> FALSE, gradnone |-> ~k.grad, basenone |-> FALSE, ndim |-> c.ndmin]
     ELSE [raises |-> "none", isinput |-> TRUE, shares |-> TRUE, dtype |-> k.dt, constant |-> k.const,
           creatornone |-> ~k.graph, gradnone |-> ~k.grad, basenone |-> ~k.view, ndim |-> k.nd]
  \* complex data cannot be cast to a real dtype silently: NumPy warns (ComplexWarning) - outside the table
  ELSE IF ~IsFloat(rd) /\ ~IsIntLike(rd) THEN
       [raises |-> "TypeError", isinput |-> FALSE, shares |-> FALSE, dtype |-> rd, constant |-> FALSE,
        creatornone |-> TRUE, gradnone |-> TRUE, basenone |-> TRUE, ndim |-> 0]
  ELSE IF IsIntLike(rd) /\ c.constant = "false" THEN
       [raises |-> "ValueError", isinput |-> FALSE, shares |-> FALSE, dtype |-> rd, constant |-> FALSE,
        creatornone |-> TRUE, gradnone |-> TRUE, basenone |-> TRUE, ndim |-> 0]
  ELSE [raises |-> "none", isinput |-> FALSE,
        shares |-> ~copy /\ (k.isT \/ k.isA \/ k.buf) /\ rd = k.dt,
        dtype |-> rd,
        constant |-> IF c.constant = "none" THEN ~IsFloat(rd) ELSE c.constant = "true",
        creatornone |-> TRUE, gradnone |-> TRUE, basenone |-> TRUE,
        ndim |-> IF c.ndmin > k.nd THEN c.ndmin ELSE k.nd]

\* ---------------------------------------------------------------- asarray / copy / astype
ConvertCells == {[entry |-> "asarray", kind |-> k, dtype |-> d] : k \in KindNames, d \in DtArgs \ {"c16"}}
           \cup {[entry |-> "copy", kind |-> k, constant |-> c] : k \in {x \in KindNames : Kinds[x].isT}, c \in ConstArgs}
           \cup {[entry |-> "astype", kind |-> k, dtype |-> d, copy |-> cp, constant |-> c] :
                    k \in {x \in KindNames : Kinds[x].isT}, d \in {"f8", "f4", "i8"}, cp \in BOOLEAN, c \in ConstArgs}
ConvertOutcome(c) ==
  LET k == Kinds[c.kind] IN
  CASE c.entry = "asarray" ->
         LET rd == ResDtype(c.kind, c.dtype) IN
         \* (np.asarray hands an ndarray of the right dtype back unchanged; a tensor yields its own array)
         [raises |-> "none", isinput |-> k.isA /\ rd = k.dt, shares |-> (k.isT \/ k.isA \/ k.buf) /\ rd = k.dt, dtype |-> rd,
          constant |-> FALSE, creatornone |-> TRUE, gradnone |-> TRUE, basenone |-> TRUE, isarray |-> TRUE]
    [] c.entry = "copy" ->
         IF IsIntLike(k.dt) /\ c.constant = "false"
         THEN [raises |-> "ValueError", isinput |-> FALSE, shares |-> FALSE, dtype |-> k.dt, constant |-> FALSE,
               creatornone |-> TRUE, gradnone |-> TRUE, basenone |-> TRUE, isarray |-> FALSE]
         ELSE [raises |-> "none", isinput |-> FALSE, shares |-> FALSE, dtype |-> k.dt,
               constant |-> IF c.constant = "none" THEN k.const ELSE c.constant = "true",
               creatornone |-> TRUE, gradnone |-> ~k.grad, basenone |-> TRUE, isarray |-> FALSE]
    [] c.entry = "astype" ->
         LET same == c.dtype = k.dt
             self == same /\ ~c.copy /\ (c.constant = "none" \/ (c.constant = "true") = k.const)
         IN IF self THEN [raises |-> "none", isinput |-> TRUE, shares |-> TRUE, dtype |-> k.dt, constant |-> k.const,
                          creatornone |-> ~k.graph, gradnone |-> ~k.grad, basenone |-> ~k.view, isarray |-> FALSE]
            ELSE IF IsIntLike(c.dtype) /\ c.constant = "false"
            THEN [raises |-> "ValueError", isinput |-> FALSE, shares |-> FALSE, dtype |-> c.dtype, constant |-> FALSE,
                  creatornone |-> TRUE, gradnone |-> TRUE, basenone |-> TRUE, isarray |-> FALSE]
            ELSE [raises |-> "none", isinput |-> FALSE, shares |-> same /\ ~c.copy, dtype |-> c.dtype,
                  constant |-> IF c.constant = "none" THEN ~IsFloat(c.dtype) ELSE c.constant = "true",
                  creatornone |-> TRUE, gradnone |-> TRUE, basenone |-> TRUE, isarray |-> FALSE]

\* ---------------------------------------------------------------- save / load  (C18)
\* name : spelling of the file name for str / Path destinations - the archive is found where numpy.savez puts it:
\*        "<name>.npz" unless the name already ends in ".npz" ("dotted": a name like  model.v1 ; "two": two tensors saved
\*        under names that differ only after the dot must not overwrite one another)
SaveCells == {[entry |-> "saveload", dt |-> d, shape |-> sh, const |-> c, grad |-> g, via |-> v, name |-> nm] :
                d \in {"f8", "f4", "f2", "i8", "b1"}, sh \in {<<>>, <<0>>, <<3>>, <<2, 2>>, <<0, 3>>, <<1>>},
                c \in BOOLEAN, g \in {"none", "own", "viewgrad", "viewnograd"}, v \in {"str", "path", "fileobj"},
                nm \in {"npz", "bare", "dotted", "two"}}
\* only float non-constant tensors can hold a gradient; a "view" cell needs at least one element to slice
SaveRelevant(c) == /\ (c.via = "fileobj" => c.name = "npz")
                   /\ (c.name # "npz" => (c.dt = "f8" /\ c.shape \in {<<3>>, <<>>}))        \* name spellings: on a few cells only
                   /\ (IsIntLike(c.dt) => c.const)
                   /\ (c.grad \in {"own", "viewgrad"} => (IsFloat(c.dt) /\ ~c.const))
                   /\ (c.grad \in {"viewgrad", "viewnograd"} => c.shape \in {<<3>>, <<2, 2>>})
\* shape of the saved tensor: a view cell saves  t = base[1:]
SavedShape(c) == IF c.grad \in {"viewgrad", "viewnograd"} THEN (IF c.shape = <<3>> THEN <<2>> ELSE <<1, 2>>) ELSE c.shape
SaveOutcome(c) == [dtype |-> c.dt, shape |-> SavedShape(c), gradnone |-> c.grad \in {"none", "viewnograd"},
                   graddtype |-> c.dt, gradshape |-> SavedShape(c)]

\* ---------------------------------------------------------------- creation routines  (C17)
\* dtype the routine must return for an explicit `dtype` argument ("none" = not given)
Routines == {"zeros", "ones", "empty", "full", "zeros_like", "ones_like", "empty_like", "full_like",
             "arange", "linspace", "eye", "identity", "logspace", "geomspace"}
CreateCells == {[entry |-> "create", fn |-> f, dtype |-> d, shape |-> sh, variant |-> v] :
                  f \in Routines, d \in {"none", "f8", "f4", "i8"}, sh \in {<<>>, <<0>>, <<3>>, <<2, 3>>}, v \in {1, 2}}
\* zeros / ones / empty default to float32 (documented); every other default is NumPy's own
CreateDefaultIsF4(f) == f \in {"zeros", "ones", "empty"}

\* ---------------------------------------------------------------- the claims of C17 / C18, checked on the tables
Cells == CASE Table = "construct" -> {c \in ConstructCells : RelevantConstruct(c)}
           [] Table = "convert"   -> ConvertCells
           [] Table = "saveload"  -> {c \in SaveCells : SaveRelevant(c)}
           [] Table = "creation"  -> CreateCells
Out(c) == CASE Table = "construct" -> Outcome(c)
            [] Table = "convert"   -> ConvertOutcome(c)
            [] Table = "saveload"  -> SaveOutcome(c)
            [] Table = "creation"  -> [f4default |-> c.dtype = "none" /\ CreateDefaultIsF4(c.fn)]

\* tensor(x) / Tensor(x) copy by default: no sharing unless copy=False (or an as* entry point)
CopyByDefault == (Table = "construct" /\ cell.entry \in {"tensor", "Tensor"} /\ cell.copy) => ~Out(cell).shares
\* copy=False / astensor reuse the memory whenever the dtype allows
ReuseWhenPossible == (Table = "construct" /\ ~(cell.entry # "astensor" /\ cell.copy) /\ Out(cell).raises = "none"
                      /\ (Kinds[cell.kind].isT \/ Kinds[cell.kind].isA)
                      /\ (cell.dtype = "none" \/ cell.dtype = Kinds[cell.kind].dt)) => Out(cell).shares
\* astensor(t) is t (graph and gradient intact) when dtype and constant already match
AstensorIdentity == (Table = "construct" /\ cell.entry = "astensor" /\ Kinds[cell.kind].isT
                     /\ (cell.dtype = "none" \/ cell.dtype = Kinds[cell.kind].dt)
                     /\ (cell.constant = "none" \/ (cell.constant = "true") = Kinds[cell.kind].const))
                    => Out(cell).isinput
\* copy() / astype() results are detached from any graph (unless astype hands back self)
Detached == (Table = "convert" /\ cell.entry \in {"copy", "astype"} /\ Out(cell).raises = "none" /\ ~Out(cell).isinput)
            => (Out(cell).creatornone /\ Out(cell).basenone)
\* non-real dtypes are rejected while tracking is on
RejectNonReal == (Table = "construct" /\ ResDtype(cell.kind, cell.dtype) = "c16" /\ ~PassThrough(cell))
                 => Out(cell).raises = "TypeError"
\* C18: round trip keeps dtype / shape, and the gradient's dtype / shape are the tensor's
RoundTrip == Table = "saveload" => (Out(cell).graddtype = Out(cell).dtype /\ Out(cell).gradshape = Out(cell).shape)

Init == cell \in Cells
Next == UNCHANGED cell
Spec == Init /\ [][Next]_vars
Emit == PrintT(<<"BEHAVIOUR", ToJson([cell |-> cell, expected |-> Out(cell)])>>)
=============================================================================

------------------------------- MODULE Kernels -------------------------------
(* DECISION TABLE for the transcendental part of C02 (DESIGN section 9).       *)
(*                                                                             *)
(* TLC has no reals, so for kernels that are irrational almost everywhere the  *)
(* specification states the derivative as an EXPRESSION TREE over a tiny       *)
(* language; the harness evaluates the tree in extended precision on a grid    *)
(* of the kernel's whole domain (both signs, near the ends) and compares with  *)
(* the gradient MyGrad sends back (assumption recorded in the evidence:        *)
(* agreement to 1e-9 relative on the grid).  The documented conventions at     *)
(* non-differentiable points are rows of their own and are compared exactly.   *)
(* What TLC decides here: the table is total over the registry (every unary    *)
(* and binary differentiable ufunc has a row), every row's domain grid is      *)
(* non-empty and covers both signs where the domain does, and the convention   *)
(* rows are the ones C02 lists.                                                *)
EXTENDS Integers, Sequences, FiniteSets, TLC, Json, SequencesExt

VARIABLE row
vars == <<row>>

\* expression language:  <<"x">>  <<"y">>  <<"c", n, d>>  <<op, e1 [, e2]>>
\*   ops: add sub mul div neg abs sq sqrt exp log sin cos tan sinh cosh tanh pow(e1, e2) f (the kernel's own value)
X == <<"x">>
Y == <<"y">>
C(n) == <<"c", n, 1>>
Q(n, d) == <<"c", n, d>>
F == <<"f">>
PiX == <<"mul", <<"pi">>, <<"x">>>>

Dec18(a, b) == <<"add", Q(a, 1000000000), <<"div", Q(b, 1000000000), C(1000000000)>>>>      \* a*1e-9 + b*1e-18
SeluScale == Dec18(1050700987, 355480493)        \* 1.050700987355480493...
SeluAlpha == Dec18(1673263242, 354377284)        \* 1.673263242354377284...
\* d/dx of every unary kernel
Unary == [
  exp      |-> F,
  exp2     |-> <<"mul", F, <<"log", C(2)>>>>,
  expm1    |-> <<"exp", X>>,
  log      |-> <<"div", C(1), X>>,
  log2     |-> <<"div", C(1), <<"mul", X, <<"log", C(2)>>>>>>,
  log10    |-> <<"div", C(1), <<"mul", X, <<"log", C(10)>>>>>>,
  log1p    |-> <<"div", C(1), <<"add", C(1), X>>>>,
  sqrt     |-> <<"div", C(1), <<"mul", C(2), F>>>>,
  cbrt     |-> <<"div", C(1), <<"mul", C(3), <<"sq", F>>>>>>,
  square   |-> <<"mul", C(2), X>>,
  reciprocal |-> <<"neg", <<"div", C(1), <<"sq", X>>>>>>,
  negative |-> C(-1),
  positive |-> C(1),
  absolute |-> <<"div", X, <<"abs", X>>>>,
  sin      |-> <<"cos", X>>,
  cos      |-> <<"neg", <<"sin", X>>>>,
  tan      |-> <<"div", C(1), <<"sq", <<"cos", X>>>>>>,
  arcsin   |-> <<"div", C(1), <<"sqrt", <<"sub", C(1), <<"sq", X>>>>>>>>,
  arccos   |-> <<"neg", <<"div", C(1), <<"sqrt", <<"sub", C(1), <<"sq", X>>>>>>>>>>,
  arctan   |-> <<"div", C(1), <<"add", C(1), <<"sq", X>>>>>>,
  sinh     |-> <<"cosh", X>>,
  cosh     |-> <<"sinh", X>>,
  tanh     |-> <<"sub", C(1), <<"sq", F>>>>,
  arcsinh  |-> <<"div", C(1), <<"sqrt", <<"add", <<"sq", X>>, C(1)>>>>>>,
  arccosh  |-> <<"div", C(1), <<"sqrt", <<"sub", <<"sq", X>>, C(1)>>>>>>,
  arctanh  |-> <<"div", C(1), <<"sub", C(1), <<"sq", X>>>>>>,
  \* MyGrad-only kernels (mygrad.<name>)
  csc      |-> <<"neg", <<"div", <<"cos", X>>, <<"sq", <<"sin", X>>>>>>>>,
  sec      |-> <<"div", <<"sin", X>>, <<"sq", <<"cos", X>>>>>>,
  cot      |-> <<"neg", <<"div", C(1), <<"sq", <<"sin", X>>>>>>>>,
  arccsc   |-> <<"neg", <<"div", C(1), <<"mul", <<"abs", X>>, <<"sqrt", <<"sub", <<"sq", X>>, C(1)>>>>>>>>>>,
  arcsec   |-> <<"div", C(1), <<"mul", <<"abs", X>>, <<"sqrt", <<"sub", <<"sq", X>>, C(1)>>>>>>>>,
  arccot   |-> <<"neg", <<"div", C(1), <<"add", C(1), <<"sq", X>>>>>>>>,
  csch     |-> <<"neg", <<"div", <<"cosh", X>>, <<"sq", <<"sinh", X>>>>>>>>,
  sech     |-> <<"neg", <<"div", <<"sinh", X>>, <<"sq", <<"cosh", X>>>>>>>>,
  coth     |-> <<"neg", <<"div", C(1), <<"sq", <<"sinh", X>>>>>>>>,
  arccsch  |-> <<"neg", <<"div", C(1), <<"mul", <<"abs", X>>, <<"sqrt", <<"add", C(1), <<"sq", X>>>>>>>>>>>>,
  arccoth  |-> <<"div", C(1), <<"sub", C(1), <<"sq", X>>>>>>,
  sinc     |-> <<"div", <<"sub", <<"mul", PiX, <<"cos", PiX>>>>, <<"sin", PiX>>>>, <<"mul", <<"pi">>, <<"sq", X>>>>>>,
  \* mygrad.nnet.activations
  sigmoid  |-> <<"mul", F, <<"sub", C(1), F>>>>,
  \* selu(x) = scale * (x if x > 0 else alpha * (exp(x) - 1)); the two constants to 18 decimals (32-bit-safe pieces)
  selu     |-> <<"add", <<"mul", SeluScale, <<"gt", X, C(0)>>>>,
                       <<"mul", <<"mul", SeluScale, SeluAlpha>>, <<"mul", <<"exp", X>>, <<"gt", C(0), X>>>>>>>>
]
\* domain of each kernel: a set of intervals, each <<lo, hi>> in tenths (open ends are approached to within 1/100)
Dom == [
  exp |-> {<<-30, 30>>}, exp2 |-> {<<-30, 30>>}, expm1 |-> {<<-30, 30>>},
  log |-> {<<1, 60>>}, log2 |-> {<<1, 60>>}, log10 |-> {<<1, 60>>}, log1p |-> {<<-9, 50>>},
  sqrt |-> {<<1, 60>>}, cbrt |-> {<<-60, -1>>, <<1, 60>>}, square |-> {<<-40, 40>>},
  reciprocal |-> {<<-40, -2>>, <<2, 40>>}, negative |-> {<<-40, 40>>}, positive |-> {<<-40, 40>>},
  absolute |-> {<<-40, -1>>, <<1, 40>>},
  sin |-> {<<-60, 60>>}, cos |-> {<<-60, 60>>}, tan |-> {<<-14, 14>>},
  arcsin |-> {<<-9, 9>>}, arccos |-> {<<-9, 9>>}, arctan |-> {<<-60, 60>>},
  sinh |-> {<<-30, 30>>}, cosh |-> {<<-30, 30>>}, tanh |-> {<<-30, 30>>},
  arcsinh |-> {<<-60, 60>>}, arccosh |-> {<<11, 60>>}, arctanh |-> {<<-9, 9>>},
  csc |-> {<<-29, -2>>, <<2, 29>>}, sec |-> {<<-14, 14>>}, cot |-> {<<-29, -2>>, <<2, 29>>},
  arccsc |-> {<<-60, -11>>, <<11, 60>>}, arcsec |-> {<<-60, -11>>, <<11, 60>>}, arccot |-> {<<-60, -1>>, <<1, 60>>},
  csch |-> {<<-30, -2>>, <<2, 30>>}, sech |-> {<<-30, 30>>}, coth |-> {<<-30, -2>>, <<2, 30>>},
  arccsch |-> {<<-60, -1>>, <<1, 60>>}, arccoth |-> {<<-60, -11>>, <<11, 60>>}, sinc |-> {<<-35, -1>>, <<1, 35>>},
  sigmoid |-> {<<-30, 30>>}, selu |-> {<<-30, -1>>, <<1, 30>>}
]
\* partial derivatives of the binary kernels
Binary == [
  add |-> <<C(1), C(1)>>, subtract |-> <<C(1), C(-1)>>, multiply |-> <<Y, X>>,
  divide |-> <<<<"div", C(1), Y>>, <<"neg", <<"div", X, <<"sq", Y>>>>>>>>,
  power |-> <<<<"mul", Y, <<"pow", X, <<"sub", Y, C(1)>>>>>>, <<"mul", F, <<"log", X>>>>>>,
  logaddexp |-> <<<<"div", C(1), <<"add", C(1), <<"exp", <<"sub", Y, X>>>>>>>>,
                  <<"div", C(1), <<"add", C(1), <<"exp", <<"sub", X, Y>>>>>>>>>>,
  logaddexp2 |-> <<<<"div", C(1), <<"add", C(1), <<"pow", C(2), <<"sub", Y, X>>>>>>>>,
                   <<"div", C(1), <<"add", C(1), <<"pow", C(2), <<"sub", X, Y>>>>>>>>>>,
  arctan2 |-> <<<<"div", Y, <<"add", <<"sq", X>>, <<"sq", Y>>>>>>,
                <<"neg", <<"div", X, <<"add", <<"sq", X>>, <<"sq", Y>>>>>>>>>>,
  maximum |-> <<<<"gt", X, Y>>, <<"gt", Y, X>>>>, minimum |-> <<<<"gt", Y, X>>, <<"gt", X, Y>>>>
]
BinPosOnly == {"power"}       \* first operand restricted to positive values

\* documented conventions at non-differentiable points (compared exactly): <<kernel, kwargs, x [, y], expected d/dx [, d/dy]>>
Conventions == {
  [f |-> "absolute", kw |-> "none",            x |-> Q(0, 1),  dx |-> "zero"],
  [f |-> "absolute", kw |-> "nan_to_num_false", x |-> Q(0, 1), dx |-> "nan"],
  [f |-> "arcsin",   kw |-> "none",            x |-> Q(1, 1),  dx |-> "zero"],
  [f |-> "arcsin",   kw |-> "none",            x |-> Q(-1, 1), dx |-> "zero"],
  [f |-> "arccos",   kw |-> "none",            x |-> Q(1, 1),  dx |-> "zero"],
  [f |-> "arccos",   kw |-> "none",            x |-> Q(-1, 1), dx |-> "zero"],
  [f |-> "maximum",  kw |-> "none",            x |-> Q(2, 1),  dx |-> "zero"],     \* tie: zero to BOTH operands
  [f |-> "minimum",  kw |-> "none",            x |-> Q(2, 1),  dx |-> "zero"],
  [f |-> "sinc",     kw |-> "none",            x |-> Q(0, 1),  dx |-> "zero"]
}

\* ---------------------------------------------------------------- focal loss  L(p) = -alpha (1 - p)^gamma ln p
\* per datum, p = the probability (or softmax score) of the datum's own class.  value, dL/dp over X = p; for
\* softmax_focal_loss the chain through softmax is stated too: dL/ds_target = L'(p) p (1 - p), dL/ds_other = -L'(p) p Y
\* (Y = the other class's probability).  gamma = 0 is spelled without the (1-p)^-1 factor (it multiplies zero).
OneMinusX == <<"sub", C(1), X>>
FocalVal(a, g) == <<"neg", <<"mul", a, <<"mul", <<"pow", OneMinusX, g>>, <<"log", X>>>>>>>>
FocalD(a, g) ==
  LET t1 == <<"div", <<"pow", OneMinusX, g>>, X>>
      t2 == <<"mul", g, <<"mul", <<"pow", OneMinusX, <<"sub", g, C(1)>>>>, <<"log", X>>>>>>
  IN IF g = C(0) THEN <<"neg", <<"div", a, X>>>> ELSE <<"neg", <<"mul", a, <<"sub", t1, t2>>>>>>
FocalAlphas == {C(1), Q(1, 2), C(3)}
FocalGammas == {C(0), C(1), C(2), Q(1, 2), Q(3, 2), C(3)}
FocalRows == {[kind |-> "focal", f |-> "focal_loss", alpha |-> a, gamma |-> g, val |-> FocalVal(a, g), d |-> FocalD(a, g),
               dtarget |-> <<"mul", FocalD(a, g), <<"mul", X, OneMinusX>>>>,
               dother |-> <<"neg", <<"mul", FocalD(a, g), <<"mul", X, Y>>>>>>,
               dom |-> <<<<1, 9>>>>,                 \* p in [0.1, 0.9] plus the approach to both ends
               at_one |-> IF g = C(0) THEN <<"neg", a>> ELSE C(0)]         \* dL/dp at p = 1 (the documented limit)
              : a \in FocalAlphas, g \in FocalGammas}

UnaryRows == {[kind |-> "unary", f |-> f, d |-> Unary[f], dom |-> SetToSeq(Dom[f])] : f \in DOMAIN Unary}
BinaryRows == {[kind |-> "binary", f |-> f, d |-> Binary[f], pos |-> f \in BinPosOnly] : f \in DOMAIN Binary}
ConvRows == {[kind |-> "convention", f |-> c.f, kw |-> c.kw, x |-> c.x, dx |-> c.dx] : c \in Conventions}
Rows == UnaryRows \cup BinaryRows \cup ConvRows \cup FocalRows

\* ---------------------------------------------------------------- what TLC decides about the table
EveryUnaryHasDomain == DOMAIN Unary = DOMAIN Dom
DomainsNonEmpty == row.kind = "unary" => (row.dom # <<>> /\ \A i \in 1..Len(row.dom) : row.dom[i][1] < row.dom[i][2])
\* kernels defined on both sides of zero are sampled on both sides
OddDomainsBothSigns == (row.kind = "unary" /\ row.f \in {"cbrt", "reciprocal", "absolute", "csc", "cot", "arccsc", "arcsec",
                                                         "arccot", "csch", "coth", "arccsch", "arccoth", "sinc", "selu"})
                       => (\E i \in 1..Len(row.dom) : row.dom[i][2] < 0) /\ (\E i \in 1..Len(row.dom) : row.dom[i][1] > 0)
ConventionsListed == {c.f : c \in Conventions} = {"absolute", "arcsin", "arccos", "maximum", "minimum", "sinc"}

Init == row \in Rows
Next == UNCHANGED row
Spec == Init /\ [][Next]_vars
Emit == PrintT(<<"BEHAVIOUR", ToJson([row |-> row])>>)
=============================================================================

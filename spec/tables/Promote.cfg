SPECIFICATION Spec
INVARIANT Commutes
INVARIANT NeverNarrower
INVARIANT WeakScalarsKeepPrecision
INVARIANT Emit
CHECK_DEADLOCK FALSE

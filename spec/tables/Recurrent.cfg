SPECIFICATION Spec
INVARIANT WellFormed
INVARIANT Causal
INVARIANT Complete
INVARIANT Emit
CHECK_DEADLOCK FALSE

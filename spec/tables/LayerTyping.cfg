SPECIFICATION Spec
INVARIANT EveryLayerHasCells
INVARIANT Emit
CHECK_DEADLOCK FALSE

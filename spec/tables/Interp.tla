------------------------------- MODULE Interp -------------------------------
(* C02, interpretation-point fragment.                                        *)
(*                                                                            *)
(* Kernels built from exp / log / sqrt are irrational almost everywhere, but  *)
(* at chosen points they - or at least their derivatives - are rational:      *)
(*   exp(ln q) = q,  d exp = exp;   d ln(u) = du / u;   sqrt(r^2) = r.        *)
(* An input element is either  [k |-> "log", q]  (x = ln q, q > 0 rational)   *)
(* or  [k |-> "rat", q]  (x = q).  Two duals are kept per element:            *)
(*   X = the value x itself   (value Irr for a "log" element, tangent unit)   *)
(*   E = exp(x)               (value q, tangent q * unit) - "log" elements    *)
(* and every kernel below is written as its textbook FORWARD definition over  *)
(* these duals; the vector-Jacobian product for a seed g is read off the      *)
(* tangents.  No backward rule is transcribed.  A value that is irrational at *)
(* the chosen point is marked Irr and only its gradient is compared.          *)
(* The harness feeds float64 ln(q) / q to MyGrad and compares with 1e-9       *)
(* relative tolerance (the declared numeric assumption of C02).               *)
EXTENDS Dual, Arr, Json, SequencesExt, FiniteSetsExt

CONSTANT Group
VARIABLE cell
vars == <<cell>>

Q(n) == <<n, 1>>
F(n, d) == RNorm(n, d)
Irr == OOR                         \* "irrational at this point": never multiplied, only added / scaled
L(q) == [k |-> "log", q |-> q]     \* x = ln q
V(q) == [k |-> "rat", q |-> q]     \* x = q

XD(e, i) == IF e.k = "log" THEN D(Irr, TUnit(i)) ELSE D(e.q, TUnit(i))
ED(e, i) == D(e.q, TScale(e.q, TUnit(i)))                      \* exp(x) for a "log" element
DLogIrr(a) == D(Irr, TScale(RInv(a.v), a.t))                   \* ln(a): value irrational, derivative da / a
ISqrt(n) == CHOOSE k \in 0..n : k * k = n
IsSq(n) == \E k \in 0..n : k * k = n
RIsSquare(a) == a[1] >= 0 /\ IsSq(a[1]) /\ IsSq(a[2])
DSqrtExact(a) == LET r == <<ISqrt(a.v[1]), ISqrt(a.v[2])>> IN D(r, TScale(RInv(RMul(Q(2), r)), a.t))

\* positions of the lane through p along (0-based) axis ax
Lane(p, sh, ax) == LET oi == Unravel(p, sh) IN [j \in 1..sh[ax + 1] |-> Ravel([oi EXCEPT ![ax + 1] = j - 1], sh)]
Xs(c) == [i \in 1..Len(c.x) |-> XD(c.x[i], i)]
Es(c) == [i \in 1..Len(c.x) |-> ED(c.x[i], i)]

\* ---------------------------------------------------------------- forward definitions
Sigmoid(c) == LET e == Es(c) IN [p \in 1..Len(e) |-> DDiv(e[p], DAdd(DC(ROne), e[p]))]
Softmax(c) == LET e == Es(c) IN
  [p \in 1..Len(e) |-> DDiv(e[p], DSumSeq(Gather(e, Lane(p, c.sh, c.axis))))]
LogSoftmax(c) == LET e == Es(c) x == Xs(c) IN
  [p \in 1..Len(e) |-> DSub(x[p], DLogIrr(DSumSeq(Gather(e, Lane(p, c.sh, c.axis)))))]
\* -(1/N) sum_i logsoftmax(x_i)[y_i]      x : (N, C)
CrossEntropy(c) ==
  LET n == c.sh[1] k == c.sh[2] ls == LogSoftmax([c EXCEPT !.axis = 1])
  IN <<DScale(F(-1, n), DSumSeq([i \in 1..n |-> ls[(i - 1) * k + c.y[i] + 1]]))>>
\* elu: alpha (e^x - 1) for x < 0 ("log" elements with q < 1), x for x > 0 ("rat" elements with q > 0)
Elu(c) == LET e == Es(c) x == Xs(c) IN
  [p \in 1..Len(c.x) |-> IF c.x[p].k = "log" THEN DScale(c.alpha, DSub(e[p], DC(ROne))) ELSE x[p]]
\* glu: first half * sigmoid(second half) along the axis; first half "rat", second half "log"
Glu(c) ==
  LET e == Es(c) x == Xs(c) half == c.sh[c.axis + 1] \div 2
      osh == [c.sh EXCEPT ![c.axis + 1] = half]
  IN [p \in 1..Size(osh) |->
        LET oi == Unravel(p, osh)
            a == Ravel(oi, c.sh) b == Ravel([oi EXCEPT ![c.axis + 1] = @ + half], c.sh)
        IN DMul(x[a], DDiv(e[b], DAdd(DC(ROne), e[b])))]
\* variance / standard deviation over an axis set (all "rat" elements)
VarOver(xs, ddof) == LET n == Len(xs) m == DScale(F(1, n), DSumSeq(xs))
                     IN DScale(F(1, n - ddof), DSumSeq([i \in 1..n |-> DSquare(DSub(xs[i], m))]))
Std(c) == LET x == Xs(c) grp == ReduceGroups(c.sh, c.axes) IN
  [p \in 1..Len(grp) |-> DSqrtExact(VarOver(Gather(x, grp[p]), c.ddof))]
\* vector norms: ord 2 (Pythagorean lanes) and ord 1
Norm(c) == LET x == Xs(c) grp == ReduceGroups(c.sh, c.axes) IN
  [p \in 1..Len(grp) |-> LET xs == Gather(x, grp[p]) IN
     IF c.ord = 2 THEN DSqrtExact(DSumSeq([i \in 1..Len(xs) |-> DSquare(xs[i])]))
     ELSE DSumSeq([i \in 1..Len(xs) |-> DAbs(xs[i])])]
\* batchnorm over every axis but axis 1:  gamma * (x - mean) / sqrt(var + eps) + beta ; gamma, beta are the trailing inputs
BatchNorm(c) ==
  LET nx == Size(c.sh) ch == c.sh[2] x == Xs(c)
      lane(ci) == SelectIdx(nx, LAMBDA p : Unravel(p, c.sh)[2] = ci - 1)
      mean(ci) == LET xs == Gather(x, lane(ci)) IN DScale(F(1, Len(xs)), DSumSeq(xs))
      sd(ci) == DSqrtExact(DAdd(VarOver(Gather(x, lane(ci)), 0), DC(c.eps)))
  IN [p \in 1..nx |-> LET ci == Unravel(p, c.sh)[2] + 1
                          y == DDiv(DSub(x[p], mean(ci)), sd(ci))
                          yg == IF c.affine THEN DMul(x[nx + ci], y) ELSE y
                      IN IF c.affine THEN DAdd(yg, x[nx + ch + ci]) ELSE yg]

Out(c) == CASE c.f = "sigmoid" -> Sigmoid(c) [] c.f = "softmax" -> Softmax(c) [] c.f = "logsoftmax" -> LogSoftmax(c)
            [] c.f = "softmax_crossentropy" -> CrossEntropy(c) [] c.f = "elu" -> Elu(c) [] c.f = "glu" -> Glu(c)
            [] c.f = "std" -> Std(c) [] c.f = "norm" -> Norm(c) [] c.f = "batchnorm" -> BatchNorm(c)

\* values that are irrational at the interpretation point but are finite sums  SUM_k c_k ln(a_k)  with rational c_k, a_k
\* (logsoftmax, cross-entropy): given as the list of <<c_k, a_k>>, evaluated by the harness in extended precision
LaneSumQ(c, p, ax) == DSumSeq(Gather(Es(c), Lane(p, c.sh, ax))).v
LogForm(c) ==
  CASE c.f = "logsoftmax" -> [p \in 1..Len(c.x) |-> << <<ROne, c.x[p].q>>, <<RNeg(ROne), LaneSumQ(c, p, c.axis)>> >>]
    [] c.f = "softmax_crossentropy" ->
         LET n == c.sh[1] k == c.sh[2]
             RECURSIVE Terms(_)
             Terms(i) == IF i > n THEN <<>>
                         ELSE LET p == (i - 1) * k + c.y[i] + 1
                              IN << <<F(-1, n), c.x[p].q>>, <<F(1, n), LaneSumQ(c, p, 1)>> >> \o Terms(i + 1)
         IN <<Terms(1)>>
    [] OTHER -> <<>>

\* seed filler and the expected outcome
G(i) == Q(((i * 3) % 5) - 2)
Expected(c) ==
  LET o == Out(c)
      seed == [p \in 1..Len(o) |-> IF Len(o) = 1 THEN Q(1) ELSE G(p)]
      tot == DSumSeq([p \in 1..Len(o) |-> DScale(seed[p], D(RZero, o[p].t))]).t
      lf == LogForm(c)
  IN [val |-> [p \in 1..Len(o) |-> IF IsOOR(o[p].v) THEN (IF lf # <<>> THEN [irr |-> TRUE, lf |-> lf[p]] ELSE [irr |-> TRUE])
                                   ELSE [irr |-> FALSE, v |-> o[p].v]],
      seed |-> seed,
      grad |-> [i \in 1..Len(c.x) |-> TGet(tot, i)]]

\* ---------------------------------------------------------------- cells
Logs(qs) == [i \in 1..Len(qs) |-> L(qs[i])]
Rats(qs) == [i \in 1..Len(qs) |-> V(qs[i])]
QA == <<Q(1), Q(2), F(1, 2), Q(3), F(1, 3), Q(4), F(3, 2), F(2, 3)>>       \* positive rationals for exp(ln q)
TakeQ(n, off) == [i \in 1..n |-> QA[((i + off - 1) % Len(QA)) + 1]]

SigmoidCells == {[f |-> "sigmoid", sh |-> sh, x |-> Logs(TakeQ(Size(sh), o))] : sh \in {<<3>>, <<2, 3>>, <<>>}, o \in {0, 3}}
SoftmaxCells ==
  UNION {{[f |-> f, sh |-> sh, axis |-> ax, x |-> Logs(TakeQ(Size(sh), o))] : ax \in 0..(Len(sh) - 1), o \in {0, 2}}
         : f \in {"softmax", "logsoftmax"}, sh \in {<<3>>, <<2, 3>>, <<2, 2, 2>>}}
XentCells == UNION {{[f |-> "softmax_crossentropy", sh |-> sh, axis |-> 1, y |-> y, x |-> Logs(TakeQ(Size(sh), o))] :
                       o \in {0, 1}, y \in {[i \in 1..sh[1] |-> (i * 2) % sh[2]], [i \in 1..sh[1] |-> 0]}}
                    : sh \in {<<2, 3>>, <<1, 2>>, <<3, 2>>}}
\* the same functions on rows shifted by very different constants (x_i = ln q_i + off[row]): softmax, logsoftmax and the
\* cross-entropy are invariant under a per-row shift, so every expectation is that of the unshifted cell - whatever the
\* magnitudes (a shift computed from the whole batch instead of the row underflows for a gap of ~745)
ShiftCells ==
  {[f |-> f, sh |-> <<2, 3>>, axis |-> 1, off |-> off, x |-> Logs(TakeQ(6, o))] :
     f \in {"softmax", "logsoftmax"}, o \in {0, 2}, off \in {<<0, 1000>>, <<-800, 0>>, <<5, -5>>}}
  \cup {[f |-> "softmax_crossentropy", sh |-> sh, axis |-> 1, y |-> [i \in 1..sh[1] |-> (i * 2) % sh[2]], off |-> off,
          x |-> Logs(TakeQ(Size(sh), o))] :
          o \in {0, 1}, sh \in {<<2, 3>>, <<3, 2>>}, off \in {<<0, 1000, -3>>, <<-800, 0, 800>>}}
EluCells == {[f |-> "elu", sh |-> <<4>>, alpha |-> a,
              x |-> <<L(F(1, 2)), V(Q(2)), L(F(1, 4)), V(F(3, 2))>>] : a \in {Q(1), F(1, 2), Q(2)}}
GluCells == {[f |-> "glu", sh |-> <<2, 2>>, axis |-> 1, x |-> <<V(Q(2)), L(Q(3)), V(F(-1, 2)), L(F(1, 2))>>],
             [f |-> "glu", sh |-> <<2, 2>>, axis |-> 0, x |-> <<V(Q(2)), V(Q(-3)), L(Q(3)), L(F(1, 3))>>],
             [f |-> "glu", sh |-> <<4>>, axis |-> 0, x |-> <<V(Q(1)), V(Q(-2)), L(Q(1)), L(Q(4))>>]}
\* data whose variance (+ eps) is a rational square
StdCells ==
  {[f |-> "std", sh |-> <<2>>, axes |-> <<0>>, ddof |-> 0, x |-> Rats(<<Q(0), Q(2)>>)],                 \* var 1
   [f |-> "std", sh |-> <<2>>, axes |-> <<0>>, ddof |-> 1, x |-> Rats(<<Q(1), Q(3)>>)],                 \* var 2 -> not a square: filtered
   [f |-> "std", sh |-> <<4>>, axes |-> <<0>>, ddof |-> 0, x |-> Rats(<<Q(1), Q(1), Q(3), Q(3)>>)],     \* var 1
   [f |-> "std", sh |-> <<2, 2>>, axes |-> <<1>>, ddof |-> 0, x |-> Rats(<<Q(0), Q(4), Q(-1), Q(5)>>)], \* var 4, 9
   [f |-> "std", sh |-> <<2, 2>>, axes |-> <<0>>, ddof |-> 0, x |-> Rats(<<Q(0), Q(-1), Q(4), Q(5)>>)],
   [f |-> "std", sh |-> <<2, 2>>, axes |-> <<0, 1>>, ddof |-> 0, x |-> Rats(<<Q(1), Q(1), Q(3), Q(3)>>)],
   [f |-> "std", sh |-> <<3>>, axes |-> <<0>>, ddof |-> 1, x |-> Rats(<<Q(0), Q(3), Q(6)>>)],           \* var 9 (ddof 1)
   [f |-> "std", sh |-> <<2>>, axes |-> <<0>>, ddof |-> 1, x |-> Rats(<<Q(0), Q(4)>>)]}                 \* var 8: filtered
NormCells ==
  {[f |-> "norm", sh |-> <<2>>, axes |-> <<0>>, ord |-> 2, x |-> Rats(<<Q(3), Q(-4)>>)],
   [f |-> "norm", sh |-> <<3>>, axes |-> <<0>>, ord |-> 2, x |-> Rats(<<Q(2), Q(-3), Q(6)>>)],
   [f |-> "norm", sh |-> <<2, 2>>, axes |-> <<1>>, ord |-> 2, x |-> Rats(<<Q(3), Q(4), Q(-5), Q(12)>>)],
   [f |-> "norm", sh |-> <<2, 2>>, axes |-> <<0>>, ord |-> 2, x |-> Rats(<<Q(3), Q(-5), Q(4), Q(12)>>)],
   [f |-> "norm", sh |-> <<2, 2>>, axes |-> <<0, 1>>, ord |-> 2, x |-> Rats(<<Q(1), Q(-1), Q(1), Q(1)>>)],
   [f |-> "norm", sh |-> <<3>>, axes |-> <<0>>, ord |-> 1, x |-> Rats(<<Q(2), Q(-3), F(1, 2)>>)],
   [f |-> "norm", sh |-> <<2, 2>>, axes |-> <<1>>, ord |-> 1, x |-> Rats(<<Q(3), Q(-4), Q(-5), Q(2)>>)]}
BatchNormCells ==
  {[f |-> "batchnorm", sh |-> <<2, 2>>, affine |-> a, eps |-> e,
    x |-> Rats(<<Q(0), Q(1), Q(2), Q(5)>>) \o (IF a THEN Rats(<<Q(2), F(-1, 2), Q(1), Q(-3)>>) ELSE <<>>)] :
     a \in BOOLEAN, e \in {Q(0)}}                                        \* channel 0: {0,2} var 1 ; channel 1: {1,5} var 4
  \cup {[f |-> "batchnorm", sh |-> <<2, 1>>, affine |-> TRUE, eps |-> Q(3),
         x |-> Rats(<<Q(0), Q(2)>>) \o Rats(<<Q(3), Q(1)>>)]}            \* var 1 + eps 3 = 4
  \cup {[f |-> "batchnorm", sh |-> <<2, 2, 2>>, affine |-> TRUE, eps |-> Q(0),
         x |-> Rats(<<Q(1), Q(1), Q(0), Q(4), Q(3), Q(3), Q(0), Q(4)>>) \o Rats(<<Q(2), Q(-1), Q(0), Q(1)>>)]}

\* a cell is usable when every square root it takes is exact
Usable(c) ==
  CASE c.f = "std" -> LET x == Xs(c) grp == ReduceGroups(c.sh, c.axes) IN
                        \A p \in 1..Len(grp) : LET v == VarOver(Gather(x, grp[p]), c.ddof).v IN RIsSquare(v) /\ v[1] > 0
    [] c.f = "norm" /\ c.ord = 2 -> LET x == Xs(c) grp == ReduceGroups(c.sh, c.axes) IN
                        \A p \in 1..Len(grp) : LET v == DSumSeq([i \in 1..Len(grp[p]) |-> DSquare(x[grp[p][i]])]).v IN RIsSquare(v) /\ v[1] > 0
    [] OTHER -> TRUE

Cells == CASE Group = "exp" -> SigmoidCells \cup SoftmaxCells \cup XentCells \cup EluCells \cup GluCells \cup ShiftCells
           [] Group = "sqrt" -> {c \in StdCells \cup NormCells : Usable(c)} \cup BatchNormCells

Init == cell \in Cells
Next == UNCHANGED cell
Spec == Init /\ [][Next]_vars
\* sanity of the table itself: softmax sums to one along its axis; a seed orthogonal to nothing is not needed
SoftmaxSumsToOne == cell.f = "softmax" =>
  LET o == Out(cell) IN \A p \in 1..Len(o) : DSumSeq(Gather(o, Lane(p, cell.sh, cell.axis))).v = ROne
Emit == PrintT(<<"BEHAVIOUR", ToJson([cell |-> cell, expected |-> Expected(cell)])>>)
=============================================================================

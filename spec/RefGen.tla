------------------------------ MODULE RefGen ------------------------------
(* spec -> code direction of the binding for the value-carrying reference.  *)
(* TLC enumerates EVERY program over a small statement alphabet up to       *)
(* MaxStmts statements (exhaustive BFS) - or samples long ones with         *)
(* -simulate - together with the projection the reference predicts after    *)
(* each statement.  Every behaviour that ends in a terminal statement is     *)
(* emitted as one JSON line; the Python replayer executes it on the real     *)
(* MyGrad and compares the projection after every statement.                 *)
EXTENDS Ref, Json, SequencesExt, FiniteSetsExt

CONSTANTS MaxStmts,   \* statements after the leaves
          MaxH,       \* live handles
          Case,       \* which leaf configuration (parallel partition of the space)
          Alphabet    \* subset of {"bin","scal","sum","matmul","view","setitem","aug","square"}

VARIABLES st, hist, done
vars == <<st, hist, done>>

Q(n) == <<n, 1>>
SL(nlo, lo, nhi, hi, nst, step) == [t |-> "slice", nlo |-> nlo, nhi |-> nhi, nst |-> nst, lo |-> lo, hi |-> hi, st |-> step]
Full == SL(TRUE, 0, TRUE, 0, TRUE, 1)
IntI(i) == [t |-> "int", i |-> i]
Basic(items) == [t |-> "basic", items |-> items]

LeafCases == <<
  << [k |-> "leaf", h |-> 1, sh |-> <<2, 2>>, v |-> <<Q(1), Q(-2), Q(3), Q(2)>>, const |-> FALSE] >>,
  << [k |-> "leaf", h |-> 1, sh |-> <<3>>, v |-> <<Q(2), Q(-1), Q(3)>>, const |-> FALSE],
     [k |-> "leaf", h |-> 2, sh |-> <<3>>, v |-> <<Q(1), Q(2), Q(-3)>>, const |-> FALSE] >>,
  << [k |-> "leaf", h |-> 1, sh |-> <<2, 2>>, v |-> <<Q(1), Q(-2), Q(3), Q(2)>>, const |-> FALSE],
     [k |-> "leaf", h |-> 2, sh |-> <<2>>, v |-> <<Q(-1), Q(2)>>, const |-> TRUE] >>,
  << [k |-> "leaf", h |-> 1, sh |-> <<2, 3>>, v |-> <<Q(1), Q(-2), Q(3), Q(2), Q(-1), Q(4)>>, const |-> FALSE] >>,
  << [k |-> "leaf", h |-> 1, sh |-> <<4>>, v |-> <<Q(1), Q(-2), Q(3), Q(2)>>, const |-> FALSE],
     [k |-> "leaf", h |-> 2, sh |-> <<>>, v |-> <<Q(3)>>, const |-> FALSE] >>,
  << [k |-> "leaf", h |-> 1, sh |-> <<2, 1>>, v |-> <<Q(2), Q(-3)>>, const |-> FALSE],
     [k |-> "leaf", h |-> 2, sh |-> <<1, 2>>, v |-> <<Q(-1), Q(2)>>, const |-> FALSE] >>,
  \* Fortran-ordered bases: reshape / ravel through a transpose are views here
  << [k |-> "leaf", h |-> 1, sh |-> <<2, 3>>, v |-> <<Q(1), Q(-2), Q(3), Q(2), Q(-1), Q(4)>>, const |-> FALSE, order |-> "F"] >>,
  << [k |-> "leaf", h |-> 1, sh |-> <<2, 2>>, v |-> <<Q(1), Q(-2), Q(3), Q(2)>>, const |-> FALSE, order |-> "F"],
     [k |-> "leaf", h |-> 2, sh |-> <<2>>, v |-> <<Q(-1), Q(2)>>, const |-> FALSE] >>
>>

\* index expressions tried on a tensor of shape sh
Indices(sh) ==
  IF Len(sh) = 0 THEN {Basic(<<[t |-> "ell"]>>)}
  ELSE IF Len(sh) = 1
  THEN {Basic(<<SL(TRUE, 0, FALSE, 2, TRUE, 1)>>), Basic(<<SL(FALSE, 1, TRUE, 0, TRUE, 1)>>),
        Basic(<<SL(TRUE, 0, TRUE, 0, FALSE, -1)>>), Basic(<<IntI(-1)>>), Basic(<<SL(TRUE, 0, TRUE, 0, FALSE, 2)>>),
        [t |-> "adv", arrs |-> <<[sh |-> <<2>>, v |-> <<0, 0>>]>>]}
  ELSE {Basic(<<IntI(0)>>), Basic(<<Full, IntI(1)>>), Basic(<<SL(TRUE, 0, TRUE, 0, FALSE, -1)>>),
        Basic(<<Full, SL(TRUE, 0, FALSE, 1, TRUE, 1)>>), Basic(<<IntI(1), IntI(0)>>),
        [t |-> "mask", m |-> [sh |-> <<sh[1]>>, v |-> [i \in 1..sh[1] |-> i = 1]]]}

NewH(s) == Len(s.H) + 1
Live(s) == Handles(s)

OpsOn(s) ==
  LET hs == Live(s) h == NewH(s) IN
  (IF "bin" \in Alphabet THEN
     {[k |-> "op", h |-> h, f |-> f, a |-> <<[h |-> a], [h |-> b]>>] :
        f \in {"add", "multiply"}, a \in hs, b \in {x \in hs : TRUE}}
   ELSE {})
  \cup (IF "scal" \in Alphabet THEN
     {[k |-> "op", h |-> h, f |-> "multiply", a |-> <<[h |-> a], [s |-> Q(2)]>>] : a \in hs}
     \cup {[k |-> "op", h |-> h, f |-> "subtract", a |-> <<[s |-> Q(1)], [h |-> a]>>] : a \in hs}
   ELSE {})
  \cup (IF "square" \in Alphabet THEN {[k |-> "op", h |-> h, f |-> "square", a |-> <<[h |-> a]>>] : a \in hs} ELSE {})
  \cup (IF "sum" \in Alphabet THEN
     {[k |-> "op", h |-> h, f |-> "sum", a |-> <<[h |-> a]>>] : a \in hs}
     \cup {[k |-> "op", h |-> h, f |-> "sum", a |-> <<[h |-> a]>>, kw |-> [axis |-> <<0>>]] : a \in {x \in hs : Len(s.H[x].sh) >= 1}}
     \cup {[k |-> "op", h |-> h, f |-> "mean", a |-> <<[h |-> a]>>, kw |-> [axis |-> <<-1>>, keepdims |-> TRUE]] : a \in {x \in hs : Len(s.H[x].sh) >= 1}}
   ELSE {})
  \cup (IF "matmul" \in Alphabet THEN
     {[k |-> "op", h |-> h, f |-> "matmul", a |-> <<[h |-> a], [h |-> b]>>] : a \in hs, b \in hs}
   ELSE {})
  \cup (IF "cum" \in Alphabet THEN
     {[k |-> "op", h |-> h, f |-> f, a |-> <<[h |-> a]>>, kw |-> [axis |-> <<-1>>]] :
        f \in {"cumsum", "cumprod"}, a \in {x \in hs : Len(s.H[x].sh) >= 1}}
     \cup {[k |-> "op", h |-> h, f |-> "cumsum", a |-> <<[h |-> a]>>] : a \in hs}
   ELSE {})
  \cup (IF "act" \in Alphabet THEN
     {[k |-> "op", h |-> h, f |-> "leaky_relu", a |-> <<[h |-> a]>>, p1 |-> <<1, 2>>] : a \in hs}
     \cup {[k |-> "op", h |-> h, f |-> "hard_tanh", a |-> <<[h |-> a]>>, p1 |-> Q(-1), p2 |-> Q(2)] : a \in hs}
     \cup {[k |-> "op", h |-> h, f |-> "soft_sign", a |-> <<[h |-> a]>>] : a \in hs}
   ELSE {})
  \cup (IF "ein" \in Alphabet THEN
     {[k |-> "op", h |-> h, f |-> "einsum", a |-> <<[h |-> a], [h |-> b]>>, subs |-> <<<<0>>, <<0>>>>, out |-> <<>>] :
        a \in {x \in hs : Len(s.H[x].sh) = 1}, b \in {x \in hs : Len(s.H[x].sh) = 1}}
     \cup {[k |-> "op", h |-> h, f |-> "einsum", a |-> <<[h |-> a], [h |-> b]>>, subs |-> <<<<0, 1>>, <<1>>>>, out |-> <<0>>] :
        a \in {x \in hs : Len(s.H[x].sh) = 2}, b \in {x \in hs : Len(s.H[x].sh) = 1}}
     \cup {[k |-> "op", h |-> h, f |-> "einsum", a |-> <<[h |-> a], [h |-> b]>>, subs |-> <<<<0, 1>>, <<0, 1>>>>, out |-> <<1>>] :
        a \in {x \in hs : Len(s.H[x].sh) = 2}, b \in {x \in hs : Len(s.H[x].sh) = 2}}
     \cup {[k |-> "op", h |-> h, f |-> "maxpool", a |-> <<[h |-> a]>>, pool |-> <<2>>, stride |-> <<1>>] :
        a \in {x \in hs : Len(s.H[x].sh) >= 1}}
   ELSE {})
  \cup (IF "view" \in Alphabet THEN
     UNION {{[k |-> "op", h |-> h, f |-> "getitem", a |-> <<[h |-> a]>>, ix |-> ix] : ix \in Indices(s.H[a].sh)} : a \in hs}
     \cup {[k |-> "op", h |-> h, f |-> "T", a |-> <<[h |-> a]>>] : a \in {x \in hs : Len(s.H[x].sh) = 2}}
     \cup {[k |-> "op", h |-> h, f |-> "reshape", a |-> <<[h |-> a]>>, sh |-> <<-1>>] : a \in {x \in hs : Len(s.H[x].sh) = 2}}
   ELSE {})

InPlaceOn(s) ==
  LET hs == Live(s) IN
  (IF "setitem" \in Alphabet THEN
     UNION {UNION {{[k |-> "setitem", t |-> t, ix |-> ix, val |-> val] :
                      val \in {[s |-> Q(5)]} \cup {[h |-> b] : b \in hs}} : ix \in Indices(s.H[t].sh)} : t \in hs}
   ELSE {})
  \cup (IF "aug" \in Alphabet THEN
     {[k |-> "aug", t |-> t, f |-> f, val |-> val] : t \in hs, f \in {"add", "multiply"},
        val \in {[s |-> Q(2)]} \cup {[h |-> b] : b \in hs}}
   ELSE {})

\* well-typedness (the alphabet above is a superset; ill-typed candidates are filtered here)
WellTyped(s, c) ==
  CASE c.k = "op" /\ c.f \in {"add", "multiply", "subtract"} ->
         BCompat(OpSh(s, c.a[1]), OpSh(s, c.a[2])) /\ Size(BShape(OpSh(s, c.a[1]), OpSh(s, c.a[2]))) <= 6
    [] c.k = "op" /\ c.f = "matmul" -> MatmulOK(OpSh(s, c.a[1]), OpSh(s, c.a[2]))
    [] c.k = "op" /\ c.f = "getitem" -> IndexOK(c.ix, s.H[c.a[1].h].sh)
    [] c.k = "op" /\ c.f = "einsum" -> EinOK(c.subs, [i \in 1..Len(c.a) |-> OpSh(s, c.a[i])], c.out)
    [] c.k = "op" /\ c.f = "maxpool" ->
         LET sh == OpSh(s, c.a[1]) n == sh[Len(sh)] cs == OpCells(s, c.a[1]) IN
         n >= 2 /\ \A p \in 1..Len(cs) : (p % n # 0) => cs[p].v # cs[p + 1].v      \* unique maximum in every window of two
    [] c.k = "setitem" -> IndexOK(c.ix, s.H[c.t].sh) /\
                          AssignOK(OpSh(s, c.val), IndexShape(c.ix, s.H[c.t].sh)) /\
                          ((c.ix.t = "basic" /\ AllInts(c.ix.items, s.H[c.t].sh)) => OpSh(s, c.val) = <<>>)
    [] c.k = "aug" -> BTo(OpSh(s, c.val), s.H[c.t].sh)
    [] OTHER -> TRUE

SmallVals(s) == ~s.oor /\ \A b \in 1..Len(s.mem) : \A c \in 1..Len(s.mem[b]) : AbsI(s.mem[b][c].v[1]) < 5000 /\ s.mem[b][c].v[2] < 100

Proj(s) ==
  [t |-> [h \in 1..Len(s.H) |->
            IF ~s.H[h].live THEN [live |-> FALSE]
            ELSE [live |-> TRUE, v |-> Vals(s, h), sh |-> s.H[h].sh, const |-> s.H[h].const,
                  base |-> ObsBase(s, h), crn |-> ~HasCr(s, h), g |-> ObsGrad(s, h)]],
   share |-> SetToSeq({<<a, b>> \in Handles(s) \X Handles(s) : a < b /\ Shares(s, a, b)}),
   kf |-> SetToSeq(s.kf)]

RECURSIVE ApplyAll(_, _)
ApplyAll(s, stmts) == IF stmts = <<>> THEN s ELSE ApplyAll(Apply(s, Head(stmts)), Tail(stmts))

Init == /\ st = ApplyAll(InitSt, LeafCases[Case])
        /\ hist = [i \in 1..Len(LeafCases[Case]) |-> [stmt |-> LeafCases[Case][i], proj |-> <<>>]]
        /\ done = FALSE

Step(c) == /\ WellTyped(st, c)
           /\ LET s2 == Apply(st, c) IN
              /\ SmallVals(s2)
              /\ st' = s2
              /\ hist' = Append(hist, [stmt |-> c, proj |-> Proj(s2)])

Next ==
  /\ ~done
  /\ \/ /\ Len(hist) - Len(LeafCases[Case]) < MaxStmts
        /\ Cardinality(Live(st)) < MaxH
        /\ \E c \in OpsOn(st) : Step(c)
        /\ UNCHANGED done
     \/ /\ Len(hist) - Len(LeafCases[Case]) < MaxStmts
        /\ \E c \in InPlaceOn(st) : Step(c)
        /\ UNCHANGED done
     \/ /\ \E L \in Live(st) : ~st.H[L].const /\ Step([k |-> "backward", h |-> L])
        /\ done' = TRUE

Spec == Init /\ [][Next]_vars

\* every terminal behaviour is written out exactly once (TLC evaluates an invariant once per distinct state)
Emit == done => PrintT(<<"BEHAVIOUR", ToJson(hist)>>)

\* design-level sanity invariants of the reference itself
GradOnlyIfNonConst == \A h \in Handles(st) : st.H[h].const => IsNone(ObsGrad(st, h))
BaseIsOwner == \A h \in Handles(st) : st.H[h].base # 0 =>
                  (st.H[st.H[h].base].base = 0 /\ st.H[st.H[h].base].buf = st.H[h].buf)
SharingIsFamily == \A a, b \in Handles(st) : Shares(st, a, b) => Root(st, a) = Root(st, b)
=============================================================================

SPECIFICATION Spec
CONSTANTS
  MaxLen = 5
  MaxDepth = 4
  TurnInside = TRUE
  EmitHist = TRUE
INVARIANT DepthConsistent
INVARIANT Emit
PROPERTY ScopedRestore
CHECK_DEADLOCK FALSE

------------------------------ MODULE Context ------------------------------
(* MECHANISM LEVEL: the three scoped switches of MyGrad (C15).               *)
(*                                                                           *)
(*   no_autodiff    -> global TRACK_GRAPH  (enter value FALSE)               *)
(*   mem_guard_off  -> global MEM_GUARD    (enter value FALSE)               *)
(*   mem_guard_on   -> global MEM_GUARD    (enter value TRUE)                *)
(*                                                                           *)
(* transcribed from mygrad._utils.ContextTracker: every manager object has   *)
(* its own depth counter and its own dict depth -> saved value;              *)
(*   __enter__ : saved[depth] := state ; depth += 1 ; state := enter value   *)
(*   __exit__  : depth -= 1 ; state := saved.pop(depth)     (whatever the    *)
(*               exception), a decorator is enter / call / exit, and         *)
(* turn_memory_guarding_on/off write MEM_GUARD directly.                     *)
(* A ghost stack of frames records what was in force at each entry; the      *)
(* properties are stated against it.                                         *)
EXTENDS Integers, Sequences, FiniteSets, TLC, Json

CONSTANTS MaxLen,      \* number of events in a behaviour
          MaxDepth,    \* nesting depth explored
          TurnInside,  \* TRUE: turn_memory_guarding_* may also be called inside scopes
          EmitHist     \* TRUE: carry the history and emit every maximal behaviour as JSON (conformance runs)

Managers == {"no_autodiff", "mem_guard_off", "mem_guard_on"}
Global(m)   == IF m = "no_autodiff" THEN "track" ELSE "guard"
EnterVal(m) == m = "mem_guard_on"

VARIABLES g,       \* [track |-> BOOLEAN, guard |-> BOOLEAN]   the two process-wide switches
          depth,   \* manager -> Nat
          saved,   \* manager -> (function: depth -> BOOLEAN)   the _depth_tracker dicts
          stack,   \* ghost: Seq of [m, form, g0]  (innermost last)
          hist     \* events so far with the predicted switches after each (only when EmitHist)
vars == <<g, depth, saved, stack, hist>>

Init == /\ g = [track |-> TRUE, guard |-> TRUE]
        /\ depth = [m \in Managers |-> 0]
        /\ saved = [m \in Managers |-> <<>>]
        /\ stack = <<>>
        /\ hist = <<>>

Log(ev, g2) == hist' = IF EmitHist THEN Append(hist, [ev |-> ev, track |-> g2.track, guard |-> g2.guard]) ELSE <<>>
Room == IF EmitHist THEN Len(hist) < MaxLen ELSE TRUE

Enter(m, form) ==
  /\ Room /\ Len(stack) < MaxDepth
  /\ LET g2 == [g EXCEPT ![Global(m)] = EnterVal(m)] IN
     /\ saved' = [saved EXCEPT ![m] = [d \in (DOMAIN @) \cup {depth[m]} |-> IF d = depth[m] THEN g[Global(m)] ELSE @[d]]]
     /\ depth' = [depth EXCEPT ![m] = @ + 1]
     /\ g' = g2
     /\ stack' = Append(stack, [m |-> m, form |-> form, g0 |-> g])
     /\ Log([k |-> "enter", m |-> m, form |-> form], g2)

\* leaving the innermost scope, normally or because its body raised: the code path is the same
Exit(raising) ==
  /\ Room /\ stack # <<>>
  /\ LET m == stack[Len(stack)].m
         d == depth[m] - 1
         g2 == [g EXCEPT ![Global(m)] = saved[m][d]] IN
     /\ depth' = [depth EXCEPT ![m] = d]
     /\ saved' = [saved EXCEPT ![m] = [x \in (DOMAIN @) \ {d} |-> @[x]]]
     /\ g' = g2
     /\ stack' = SubSeq(stack, 1, Len(stack) - 1)
     /\ Log([k |-> "exit", m |-> m, form |-> stack[Len(stack)].form, raising |-> raising], g2)

\* turn_memory_guarding_on / _off: writes MEM_GUARD directly.  Outside any scope it sets the process-wide default;
\* inside a scope it only lasts until a memory-guard scope that encloses the call exits (that exit restores what was
\* in force when the scope was entered).  TurnInside = FALSE restricts the model to calls outside scopes.
Turn(b) ==
  /\ Room /\ (stack = <<>> \/ TurnInside)
  /\ g' = [g EXCEPT !.guard = b]
  /\ UNCHANGED <<depth, saved, stack>>
  /\ Log([k |-> "turn", on |-> b], [g EXCEPT !.guard = b])

Next == \/ \E m \in Managers, form \in {"ctx", "dec"} : Enter(m, form)
        \/ \E r \in BOOLEAN : Exit(r)
        \/ \E b \in BOOLEAN : Turn(b)
Spec == Init /\ [][Next]_vars

\* ------------------------------------------------------------------ properties
\* every exit re-establishes exactly the pair of switches recorded at the matching entry
ScopedRestore == [][Len(stack') < Len(stack) =>
                      LET fr == stack[Len(stack)] IN
                      /\ g'[Global(fr.m)] = fr.g0[Global(fr.m)]                                  \* own switch: entry value
                      /\ \A k \in {"track", "guard"} : k # Global(fr.m) => g'[k] = g[k]          \* other switch: untouched
                      /\ (~TurnInside => g' = fr.g0)]_vars
\* entering sets the manager's switch and leaves the other one alone
EnterSets == [][Len(stack') > Len(stack) =>
                  LET m == stack'[Len(stack')].m IN
                  /\ g'[Global(m)] = EnterVal(m)
                  /\ \A k \in {"track", "guard"} : k # Global(m) => g'[k] = g[k]]_vars
\* the bookkeeping mirrors the real nesting: no residue when every scope is closed
DepthConsistent == \A m \in Managers :
                     /\ depth[m] = Cardinality({i \in 1..Len(stack) : stack[i].m = m})
                     /\ DOMAIN saved[m] = 0..(depth[m] - 1)
\* outside every scope tracking is on (nothing but no_autodiff ever touches it)
TrackDefault == stack = <<>> => g.track
\* turn_* outside any scope sets the default, and scopes entered later come back to it
DefaultOutside == [][(stack = <<>> /\ stack' = <<>>) => (g'.track = g.track)]_vars

\* ------------------------------------------------------------------ emission of behaviours for replay
Emit == (EmitHist /\ Len(hist) = MaxLen) => PrintT(<<"BEHAVIOUR", ToJson(hist)>>)
View == <<g, depth, saved, stack>>
=============================================================================

------------------------------- MODULE Ref -------------------------------
(* REFERENCE LEVEL of the MyGrad specification (DESIGN section 2).          *)
(*                                                                           *)
(* What a user of MyGrad must observe, stated without any of MyGrad's        *)
(* mechanisms:                                                               *)
(*  - NumPy's memory model: buffers, arrays as index maps into buffers,      *)
(*    views share the buffer, in-place statements write through the map;     *)
(*  - exact rational values;                                                 *)
(*  - the exact derivative of the recorded program, obtained by forward-mode *)
(*    dual numbers: every cell of every non-constant tensor carries a        *)
(*    perturbation variable, an in-place update gives every cell of the      *)
(*    written buffer a fresh one, and the gradient of L with respect to x is *)
(*    the coefficient of x's variables in the tangent of sum(L * seed);      *)
(*  - the user-visible life cycle of .grad / .base / .creator across         *)
(*    backward(), clear_graph(), null_grad() and re-use.                     *)
(*                                                                           *)
(* Every statement is a pure operator  st -> st'  (Apply), so that the same  *)
(* text is used by the exhaustive model, by -simulate generation and by      *)
(* trace validation.                                                         *)
EXTENDS Dual, Arr, TLC

None    == [none |-> TRUE]
Some(x) == [none |-> FALSE, v |-> x]
IsNone(o) == o.none
\* a gradient slot whose contents the properties do not pin down (see MkView: a disconnected view that is used again
\* as the parent of a new view shows its own, partial, back-propagated gradient); it is never compared
Unspec  == [none |-> FALSE, u |-> TRUE]
IsUnspec(o) == ~o.none /\ "u" \in DOMAIN o

Has(r, f) == f \in DOMAIN r
Kw(r, f, dflt) == IF f \in DOMAIN r THEN r[f] ELSE dflt

\* ------------------------------------------------------------------ state
InitSt == [ H     |-> <<>>,   \* handle id -> handle record (see MkH)
            N     |-> <<>>,   \* graph node id -> [par : Seq(node), const, cr (has creator), clr (was cleared)]
            mem   |-> <<>>,   \* buffer id -> Seq(Dual)
            pv    |-> <<>>,   \* buffer id -> Seq(VarId)   current perturbation variable of each cell (0 = none)
            nv    |-> 0,      \* perturbation variables allocated so far
            clk   |-> 0,      \* statement counter (orders node creation and clearing)
            g     |-> <<>>,   \* handle id -> None | Some(Seq(Rat))   gradient stored on an OWNER (per buffer cell)
            gen   |-> <<>>,   \* handle id -> generation number of the gradient array stored on the owner
            ngen  |-> 0,
            oor   |-> FALSE,  \* some value left the 32-bit-safe range (Rat.OOR): the trace is out_of_model from here on
            track |-> TRUE,   \* graph tracking switch (no_autodiff scopes)
            tsaved |-> <<>>,  \* values of `track` saved by the enclosing no_autodiff scopes
            hb    |-> {},     \* handles that are views of an intermediate result the user never sees (multi_matmul with a 1-D end)
            pend  |-> {},     \* handles with a consumer the in-place machinery failed to re-route (F-C09-1 not yet manifest)
            kf    |-> {},     \* known-finding triggers this history has passed (DESIGN 4.4 / section 7)
            exc   |-> "none"  \* exception class the last statement is predicted to raise
          ]

\* handle record
MkH(kind, buf, imap, sh, const, node, base, par) ==
  [live |-> TRUE, kind |-> kind, buf |-> buf, imap |-> imap, sh |-> sh, const |-> const,
   node |-> node, base |-> base, par |-> par, kids |-> {}, gc |-> 0]
   \* kids : registered view children (handle ids);  gc : generation of the base gradient a stale view cached

Handles(st)   == {h \in 1..Len(st.H) : st.H[h].live}
\* dropping a handle only removes the USER's reference: the object may live on (as a base, as an operand of a live
\* operation) and still takes part in graph traversals
AllH(st)      == 1..Len(st.H)
\* (TLCEval forces TLC to materialise a function instead of re-evaluating its lazy definition on every access)
Cells(st, h)  == LET r == st.H[h] IN TLCEval([k \in 1..Len(r.imap) |-> st.mem[r.buf][r.imap[k]]])
Vals(st, h)   == LET r == st.H[h] IN [k \in 1..Len(r.imap) |-> st.mem[r.buf][r.imap[k]].v]
Root(st, h)   == IF st.H[h].base = 0 THEN h ELSE st.H[h].base
CellSet(st, h) == {st.H[h].imap[k] : k \in 1..Len(st.H[h].imap)}
Shares(st, a, b) == st.H[a].buf = st.H[b].buf /\ CellSet(st, a) \cap CellSet(st, b) # {}
HasCr(st, h)  == st.N[st.H[h].node].cr

PutH(st, h, rec) ==
  LET n == Len(st.H) IN
  IF h = n + 1 THEN [st EXCEPT !.H = Append(@, rec), !.g = Append(@, None), !.gen = Append(@, 0)]
  ELSE [st EXCEPT !.H[h] = rec, !.g[h] = None, !.gen[h] = 0]

\* nb : the buffer the node's tensor OWNS (0 for views, which live in their base's buffer)
NewNodeB(st, par, const, cr, nb) ==
  [st EXCEPT !.N = Append(@, [par |-> par, const |-> const, cr |-> cr, clr |-> FALSE, born |-> st.clk, clrAt |-> 0, buf |-> nb])]
NewNode(st, par, const, cr) == NewNodeB(st, par, const, cr, 0)

\* allocate a buffer holding `ds`; non-constant buffers get one fresh perturbation variable per cell
NewBuf(st, ds, const) ==
  LET n == Len(ds)
      vars  == [i \in 1..n |-> IF const THEN 0 ELSE st.nv + i]
      cells == TLCEval([i \in 1..n |-> IF const THEN DC(ds[i].v) ELSE D(ds[i].v, TAdd(ds[i].t, TUnit(vars[i])))])
      bad == \E i \in 1..n : Big(cells[i].v) \/ \E k \in DOMAIN cells[i].t : Big(cells[i].t[k])
  IN [st EXCEPT !.mem = Append(@, cells), !.pv = Append(@, vars), !.nv = IF const THEN @ ELSE @ + n,
                !.oor = @ \/ bad]

\* ------------------------------------------------------------------ operands
\* An operand is a tensor handle {h}, a Python scalar {s}, or an inline constant array {arr: [sh, v]}.
IsH(o) == Has(o, "h")
\* [hd |-> h] : the ndarray of tensor h (`h.data`) passed as a plain array - the stop-gradient idiom: same values and
\* memory as h, but a constant as far as the graph is concerned
IsHD(o) == Has(o, "hd")
OpSh(st, o)    == IF IsH(o) THEN st.H[o.h].sh ELSE IF IsHD(o) THEN st.H[o.hd].sh ELSE IF Has(o, "s") THEN <<>> ELSE o.arr.sh
OpCells(st, o) == IF IsH(o) THEN Cells(st, o.h)
                  ELSE IF IsHD(o) THEN LET c == Cells(st, o.hd) IN TLCEval([k \in 1..Len(c) |-> DC(c[k].v)])
                  ELSE IF Has(o, "s") THEN <<DC(o.s)>>
                  ELSE TLCEval([k \in 1..Len(o.arr.v) |-> DC(o.arr.v[k])])
OpConst(st, o) == IF IsH(o) THEN st.H[o.h].const ELSE TRUE
OpNodes(st, os) == LET hs == SelectIdx(Len(os), LAMBDA i : IsH(os[i])) IN [k \in 1..Len(hs) |-> st.H[os[hs[k]].h].node]
OpHandles(os) == {os[i].h : i \in {j \in 1..Len(os) : IsH(os[j])}}

\* the `constant` keyword: "none" | "true" | "false"
ResConst(st, os, kw) ==
  LET c == Kw(kw, "constant", "none") IN
  IF c = "true" THEN TRUE ELSE IF c = "false" THEN FALSE
  ELSE \A i \in 1..Len(os) : OpConst(st, os[i])

\* a non-view use of tensor operands nulls the gradient stored on them (C07).  A stale view (creator gone)
\* detaches from its base at that moment.
NullOnUse(st, hs) ==
  [st EXCEPT !.g = [h \in DOMAIN @ |-> IF h \in hs /\ st.H[h].base = 0 THEN None ELSE @[h]],
             \* (the operand's cached view-gradient is dropped as well, whether or not it detaches)
             !.H = [h \in DOMAIN @ |-> IF h \in hs /\ @[h].base # 0 /\ ~HasCr(st, h)
                                       THEN [@[h] EXCEPT !.base = 0, !.par = 0, !.gc = 0]
                                       ELSE IF h \in hs /\ @[h].base # 0 THEN [@[h] EXCEPT !.gc = 0] ELSE @[h]]]

\* result of a non-view operation: fresh buffer, fresh node, fresh handle.
\* With tracking off (C15) nothing is recorded: the result is a fresh leaf (no creator, no parents), operands
\* keep their gradients, and - constant-ness not being inferred from a graph - a float result is non-constant
\* unless the `constant` keyword says otherwise.
\* lay : index map of the result into its own fresh buffer (identity = C order); cells are given in LOGICAL order
\* viewused : operand handles the operation consumes through an internal VIEW operation (multi_matmul's 1-D ends go through
\*            expand_dims): like the parent of any view they keep their gradient, and a stale one detaches (MkView)
MkResultV(st, s, sh, cells, os, lay, viewused) ==
  LET n == Len(cells)
      memcells == IF lay = Iota(n) THEN cells
                  ELSE LET inv == [c \in 1..n |-> CHOOSE p \in 1..n : lay[p] = c] IN TLCEval([c \in 1..n |-> cells[inv[c]]])
  IN
  IF st.track THEN
    LET const == ResConst(st, os, Kw(s, "kw", <<>>))
        stn == NullOnUse(st, OpHandles(os) \ viewused)
        stv == [stn EXCEPT !.H = [h \in DOMAIN @ |-> IF h \in viewused /\ @[h].base # 0 /\ ~HasCr(st, h)
                                                      THEN [@[h] EXCEPT !.base = 0, !.par = 0, !.gc = 0] ELSE @[h]],
                           !.g = [h \in DOMAIN @ |-> IF h \in viewused /\ st.H[h].base # 0 /\ ~HasCr(st, h) THEN Unspec ELSE @[h]]]
        st0 == [stv EXCEPT !.kf = IF OpHandles(os) \cap st.pend # {} THEN @ \cup {"F-C09-1"} ELSE @]
        st1 == NewBuf(st0, memcells, const)
        st2 == NewNodeB(st1, OpNodes(st, os), const, TRUE, Len(st1.mem))
    IN PutH(st2, s.h, MkH("t", Len(st1.mem), lay, sh, const, Len(st2.N), 0, 0))
  ELSE
    LET const == Kw(Kw(s, "kw", <<>>), "constant", "none") = "true"
        st1 == NewBuf(st, [i \in 1..n |-> DC(memcells[i].v)], const)
        st2 == NewNodeB(st1, <<>>, const, FALSE, Len(st1.mem))
    IN PutH(st2, s.h, MkH("t", Len(st1.mem), lay, sh, const, Len(st2.N), 0, 0))
MkResultL(st, s, sh, cells, os, lay) == MkResultV(st, s, sh, cells, os, lay, {})
MkResult(st, s, sh, cells, os) == MkResultL(st, s, sh, cells, os, Iota(Len(cells)))

\* memory layout NumPy gives the output of an elementwise operation on these operands ("K" order, lib/Arr)
\* prs : sequence of [imap, sh] (one per array operand), aligned to the right of the n result axes
LayoutFrom(prs, sh) ==
  LET n == Len(sh)
      arrs == SelectIdx(Len(prs), LAMBDA i : Len(prs[i].sh) > 0 /\ Size(prs[i].sh) > 1)
      opst == [k \in 1..Len(arrs) |-> AlignedStrides(prs[arrs[k]].imap, prs[arrs[k]].sh, n)]
  IN IF n < 2 \/ Size(sh) < 2 \/ Len(arrs) = 0 THEN Iota(Size(sh))
     ELSE LET perm == KOrderPerm(n, opst)
              ost == KOrderStrides(sh, perm)
          IN [p \in 1..Size(sh) |-> LET oi == Unravel(p, sh) IN 1 + SeqSum([a \in 1..n |-> oi[a] * ost[a]])]
\* a tensor operand's strides follow from its index map; an inline array operand is C-contiguous
OpPair(st, o) == IF IsH(o) THEN [imap |-> st.H[o.h].imap, sh |-> st.H[o.h].sh]
                 ELSE IF IsHD(o) THEN [imap |-> st.H[o.hd].imap, sh |-> st.H[o.hd].sh]
                 ELSE IF "arr" \in DOMAIN o THEN [imap |-> Iota(Size(o.arr.sh)), sh |-> o.arr.sh]
                 ELSE [imap |-> <<1>>, sh |-> <<>>]
ElementwiseLayout(st, os, sh) == LayoutFrom([i \in 1..Len(os) |-> OpPair(st, os[i])], sh)

\* memory layout of the output of a reduction (ufunc.reduce allocates its output through the same iterator: the kept
\* axes keep the relative memory order they have in the operand)
ReduceLayout(st, o, sh, axes, keepdims) ==
  LET n == Len(sh)
      keepsh == [a \in 1..n |-> IF (a - 1) \in RangeOf(axes) THEN 1 ELSE sh[a]]
      osh == ReduceShape(sh, axes, keepdims)
  IN IF n < 2 \/ Size(osh) < 2 \/ ~IsH(o) THEN Iota(Size(osh))
     ELSE LET ist == AlignedStrides(st.H[o.h].imap, sh, n)
              perm == KOrderPerm(n, <<ist>>)
              kst == KOrderStrides(keepsh, perm)
              kept == IF keepdims THEN [a \in 1..n |-> a] ELSE ReduceKeep(sh, axes)
          IN [p \in 1..Size(osh) |-> LET oi == Unravel(p, osh) IN 1 + SeqSum([j \in 1..Len(osh) |-> oi[j] * kst[kept[j]]])]

\* result of a view operation on tensor handle a: same buffer, gathered index map
MkViewUntracked(st, s, a, sh, gth) ==      \* shares the memory, but no base / creator / registration
  LET src == st.H[a]
      const == Kw(Kw(s, "kw", <<>>), "constant", "none") = "true"
      st1 == NewNode(st, <<>>, const, FALSE)
  IN PutH(st1, s.h, MkH("t", src.buf, Gather(src.imap, gth), sh, const, Len(st1.N), 0, 0))

MkView(st, s, a, sh, gth) ==
  IF ~st.track THEN MkViewUntracked(st, s, a, sh, gth) ELSE
  LET src == st.H[a]
      c == Kw(Kw(s, "kw", <<>>), "constant", "none")
      const == IF c = "true" THEN TRUE ELSE IF c = "false" THEN FALSE ELSE src.const
      \* a stale view used as the parent of a new view detaches first and becomes the base
      stale == src.base # 0 /\ ~HasCr(st, a)
      stk == [st EXCEPT !.kf = IF a \in st.pend THEN @ \cup {"F-C09-1"} ELSE @]
      \* ... and from then on `.grad` of the detached tensor reads its OWN slot: what was back-propagated through it alone
      \* in the epoch that ended (not the total derivative its base holds) - a value the properties do not speak about
      st0 == IF stale THEN [stk EXCEPT !.H[a].base = 0, !.H[a].par = 0, !.H[a].gc = 0, !.g[a] = Unspec] ELSE stk
      base == IF st0.H[a].base = 0 THEN a ELSE st0.H[a].base
      st1 == NewNode(st0, <<src.node>>, const, TRUE)
      st2 == PutH(st1, s.h, MkH("t", src.buf, Gather(src.imap, gth), sh, const, Len(st1.N), base, a))
  IN [st2 EXCEPT !.H[a].kids = @ \cup {s.h}]

\* ------------------------------------------------------------------ elementwise kernels
Bin(f) == f \in {"add", "subtract", "multiply", "divide", "maximum", "minimum"}
BinK(f, x, y) == CASE f = "add" -> DAdd(x, y) [] f = "subtract" -> DSub(x, y) [] f = "multiply" -> DMul(x, y)
                   [] f = "divide" -> DDiv(x, y) [] f = "maximum" -> DMax2(x, y) [] f = "minimum" -> DMin2(x, y)
Un(f) == f \in {"negative", "positive", "square", "abs", "reciprocal", "relu"}
UnK(f, x) == CASE f = "negative" -> DNeg(x) [] f = "positive" -> x [] f = "square" -> DSquare(x)
               [] f = "abs" -> DAbs(x) [] f = "reciprocal" -> DInv(x) [] f = "relu" -> DRelu(x)

BinCells(st, f, o1, o2) ==
  LET s1 == OpSh(st, o1) s2 == OpSh(st, o2) sh == BShape(s1, s2)
      c1 == OpCells(st, o1) c2 == OpCells(st, o2) g1 == BGather(s1, sh) g2 == BGather(s2, sh)
  IN [p \in 1..Size(sh) |-> BinK(f, c1[g1[p]], c2[g2[p]])]

\* ------------------------------------------------------------------ reductions
Red(f) == f \in {"sum", "mean", "prod", "max", "min", "var"}
\* axis keyword: absent / "none" -> all axes ; otherwise a sequence of (possibly negative) ints
RedAxes(kw, sh) == IF ~Has(kw, "axis") THEN AllAxes(sh) ELSE NormAxes(kw.axis, Len(sh))
\* reductions `max`/`min`: the sub-gradient goes to the FIRST extremal element (NumPy's argmax), see C02
RECURSIVE DArgBest(_, _, _, _)
DArgBest(xs, i, best, less) == IF i > Len(xs) THEN best
                               ELSE DArgBest(xs, i + 1, IF less = (RLt(xs[i].v, xs[best].v)) /\ xs[i].v # xs[best].v THEN i ELSE best, less)
RedK(f, xs, kw) ==
  CASE f = "sum"  -> DSumSeq(xs)
    [] f = "prod" -> DProdSeq(xs)
    [] f = "mean" -> DScale(<<1, Len(xs)>>, DSumSeq(xs))
    [] f = "max"  -> xs[DArgBest(xs, 2, 1, FALSE)]
    [] f = "min"  -> xs[DArgBest(xs, 2, 1, TRUE)]
    [] f = "var"  -> LET n == Len(xs) m == DScale(<<1, n>>, DSumSeq(xs))
                         dev == [i \in 1..n |-> DSquare(DSub(xs[i], m))]
                     IN DScale(<<1, n - Kw(kw, "ddof", 0)>>, DSumSeq(dev))

\* ------------------------------------------------------------------ further exact operations (no backward rule anywhere:
\* every one is a forward definition over the dual-number kernels)
\* piecewise-linear / rational activations; parameters are rationals carried by the statement (s.p1, s.p2)
Un2(f) == f \in {"leaky_relu", "hard_tanh", "soft_sign", "clip"}
Un2K(f, s, x) ==
  CASE f = "leaky_relu" -> IF x.v[1] > 0 THEN x ELSE IF x.v[1] < 0 THEN DScale(s.p1, x) ELSE DC(RZero)
    [] f = "hard_tanh"  -> DMax2(DC(s.p1), DMin2(x, DC(s.p2)))       \* maximum(lower, minimum(x, upper))
    [] f = "clip"       -> DMin2(DC(s.p2), DMax2(DC(s.p1), x))       \* minimum(a_max, maximum(a_min, a))
    [] f = "soft_sign"  -> DDiv(x, DAdd(DC(ROne), DAbs(x)))
\* cumulative sums / products along one axis (axis absent: over the flattened operand)
CumF(f) == f \in {"cumsum", "cumprod"}
CumCells(f, c, sh, ax) ==
  [p \in 1..Size(sh) |-> LET oi == Unravel(p, sh)
                             xs == [j \in 1..(oi[ax + 1] + 1) |-> c[Ravel([oi EXCEPT ![ax + 1] = j - 1], sh)]]
                         IN IF f = "cumsum" THEN DSumSeq(xs) ELSE DProdSeq(xs)]
\* n-ary add_sequence / multiply_sequence
RECURSIVE BShapeAll(_)
BShapeAll(shs) == IF Len(shs) = 1 THEN shs[1] ELSE BShape(shs[1], BShapeAll(Tail(shs)))
\* einsum without ellipsis: s.subs = one label sequence per operand, s.out = the output labels (labels are integers)
EinLabels(subs) == UNION {RangeOf(subs[i]) : i \in 1..Len(subs)}
\* (operands broadcast like in a ufunc: an axis of length 1 may meet a longer axis under the same label)
EinSize(subs, shs, l) ==
  LET occ == {shs[i][j] : <<i, j>> \in {<<i2, j2>> \in (1..Len(subs)) \X (1..4) : j2 <= Len(subs[i2]) /\ subs[i2][j2] = l}}
  IN CHOOSE m \in occ : \A y \in occ : y <= m
EinOK(subs, shs, out) ==
  /\ \A i \in 1..Len(subs) : Len(subs[i]) = Len(shs[i]) /\ Len(subs[i]) <= 4
  /\ \A i \in 1..Len(subs) : \A j \in 1..Len(subs[i]) : shs[i][j] \in {1, EinSize(subs, shs, subs[i][j])}
  /\ RangeOf(out) \subseteq EinLabels(subs) /\ Cardinality(RangeOf(out)) = Len(out)
EinCells(subs, shs, out, cs) ==
  LET osh == [k \in 1..Len(out) |-> EinSize(subs, shs, out[k])]
      sumset == EinLabels(subs) \ RangeOf(out)
      sl == [k \in 1..Cardinality(sumset) |-> CHOOSE x \in sumset : Cardinality({y \in sumset : y < x}) = k - 1]
      ssh == [k \in 1..Len(sl) |-> EinSize(subs, shs, sl[k])]
      Pos(seq, l) == CHOOSE k \in 1..Len(seq) : seq[k] = l
  IN [p \in 1..Size(osh) |->
        LET oi == Unravel(p, osh) IN
        DSumSeq([q \in 1..Size(ssh) |->
           LET si == Unravel(q, ssh)
               val(l) == IF l \in RangeOf(out) THEN oi[Pos(out, l)] ELSE si[Pos(sl, l)]
           IN DProdSeq([i \in 1..Len(subs) |->
                 cs[i][Ravel([j \in 1..Len(subs[i]) |-> IF shs[i][j] = 1 THEN 0 ELSE val(subs[i][j])], shs[i])]])])]
\* conv_nd(x, w, stride, padding, dilation): x (N, C, X1..), w (F, C, K1..); zero padding
ConvOutDim(X, K, st, pd, dl) == ((X + 2 * pd - ((K - 1) * dl + 1)) \div st) + 1
ConvValidDim(X, K, st, pd, dl) == X + 2 * pd >= (K - 1) * dl + 1 /\ (X + 2 * pd - ((K - 1) * dl + 1)) % st = 0
ConvShape(xsh, wsh, st, pd, dl) ==
  <<xsh[1], wsh[1]>> \o [j \in 1..(Len(xsh) - 2) |-> ConvOutDim(xsh[j + 2], wsh[j + 2], st[j], pd[j], dl[j])]
ConvCells(cx, cw, xsh, wsh, st, pd, dl) ==
  LET osh == ConvShape(xsh, wsh, st, pd, dl) nd == Len(xsh) - 2
      ksh == <<xsh[2]>> \o SubSeq(wsh, 3, Len(wsh))             \* (C, K1, ...)
  IN [p \in 1..Size(osh) |->
        LET oi == Unravel(p, osh)
            terms == [q \in 1..Size(ksh) |->
                        LET ki == Unravel(q, ksh)
                            xp == [j \in 1..nd |-> oi[j + 2] * st[j] + ki[j + 1] * dl[j] - pd[j]]
                        IN IF \A j \in 1..nd : xp[j] >= 0 /\ xp[j] < xsh[j + 2]
                           THEN DMul(cx[Ravel(<<oi[1], ki[1]>> \o xp, xsh)], cw[Ravel(<<oi[2]>> \o ki, wsh)])
                           ELSE DC(RZero)]
        IN DSumSeq(terms)]
\* max_pool(x, pool, stride): pools over the trailing Len(pool) axes, no padding; the first maximal element wins
PoolShape(xsh, pool, st) ==
  LET nl == Len(xsh) - Len(pool) IN
  SubSeq(xsh, 1, nl) \o [j \in 1..Len(pool) |-> ((xsh[nl + j] - pool[j]) \div st[j]) + 1]

\* ------------------------------------------------------------------ structural (gather) operations on one tensor
\* each yields [ok, sh, g]; `view` says whether NumPy returns a view of the operand
StructF == {"getitem", "reshape", "transpose", "T", "swapaxes", "moveaxis", "squeeze", "expand_dims",
            "ravel", "flatten", "broadcast_to", "repeat", "roll", "diag", "atleast"}
\* numpy.atleast_1d / _2d / _3d (s.nd = 1, 2, 3)
AtLeastShape(sh, nd) ==
  IF Len(sh) >= nd THEN sh
  ELSE IF nd = 1 THEN <<1>>
  ELSE IF nd = 2 THEN (IF Len(sh) = 0 THEN <<1, 1>> ELSE <<1, sh[1]>>)
  ELSE IF Len(sh) = 0 THEN <<1, 1, 1>> ELSE IF Len(sh) = 1 THEN <<1, sh[1], 1>> ELSE <<sh[1], sh[2], 1>>
StructShape(f, s, sh) ==
  CASE f = "getitem"     -> IndexShape(s.ix, sh)
    [] f = "reshape"     -> ResolveShape(s.sh, Size(sh))
    [] f = "transpose"   -> PermShape(sh, IF Has(s, "axes") THEN NormAxes(s.axes, Len(sh)) ELSE ReversePerm(Len(sh)))
    [] f = "T"           -> PermShape(sh, ReversePerm(Len(sh)))
    [] f = "swapaxes"    -> PermShape(sh, SwapPerm(Len(sh), NormAxis(s.a1, Len(sh)), NormAxis(s.a2, Len(sh))))
    [] f = "moveaxis"    -> PermShape(sh, MovePerm(Len(sh), NormAxes(s.src, Len(sh)), NormAxes(s.dst, Len(sh))))
    [] f = "squeeze"     -> SqueezeShape(sh, IF Has(s, "axis") THEN RangeOf(NormAxes(s.axis, Len(sh))) ELSE AllOnes(sh))
    [] f = "expand_dims" -> ExpandShape(sh, {NormAxis(s.axis, Len(sh) + 1)})
    [] f = "ravel"       -> <<Size(sh)>>
    [] f = "flatten"     -> <<Size(sh)>>
    [] f = "broadcast_to" -> s.sh
    [] f = "repeat"      -> RepeatShape(sh, s.r, NormAxis(s.axis, Len(sh)))
    [] f = "roll"        -> sh
    [] f = "diag"        -> <<sh[1]>>
    [] f = "atleast"     -> AtLeastShape(sh, s.nd)
StructGather(f, s, sh) ==
  CASE f = "getitem"     -> IndexGather(s.ix, sh)
    [] f = "transpose"   -> PermGather(sh, IF Has(s, "axes") THEN NormAxes(s.axes, Len(sh)) ELSE ReversePerm(Len(sh)))
    [] f = "T"           -> PermGather(sh, ReversePerm(Len(sh)))
    [] f = "swapaxes"    -> PermGather(sh, SwapPerm(Len(sh), NormAxis(s.a1, Len(sh)), NormAxis(s.a2, Len(sh))))
    [] f = "moveaxis"    -> PermGather(sh, MovePerm(Len(sh), NormAxes(s.src, Len(sh)), NormAxes(s.dst, Len(sh))))
    [] f = "broadcast_to" -> BGather(sh, s.sh)
    [] f = "repeat"      -> RepeatGather(sh, s.r, NormAxis(s.axis, Len(sh)))
    [] f = "roll"        -> RollGather(sh, s.shift, NormAxis(s.axis, Len(sh)))
    [] f = "diag"        -> DiagGather(sh)
    [] OTHER             -> Iota(Size(sh))          \* reshape, squeeze, expand_dims, ravel, flatten
Consecutive(imap) == \A k \in 1..Len(imap) : imap[k] = imap[1] + (k - 1)
\* NumPy returns a view of the operand (and MyGrad therefore registers a view tensor)
StructIsView(f, s, src, newimap, newsh) ==
  CASE f = "getitem"  -> s.ix.t = "basic" /\ ~AllInts(s.ix.items, src.sh)
    [] f \in {"transpose", "T", "swapaxes", "moveaxis", "squeeze", "expand_dims", "broadcast_to", "diag", "atleast"} -> TRUE
    [] f = "reshape"  -> Affine(newimap, newsh)
    [] f = "ravel"    -> Len(newimap) <= 1 \/ Consecutive(newimap)
    [] OTHER          -> FALSE

\* `where=mask` WITHOUT `out=` (field wm : [sh, v] of booleans, broadcastable to the result): NumPy leaves the masked-out
\* cells of the fresh result uninitialised; the harness zeroes them on both sides right after the call, so the result
\* is  f(x, y)  where the mask holds and the constant 0 elsewhere - and the masked-out cells pass nothing back
Masked(s, sh, cells) ==
  IF ~Has(s, "wm") THEN cells
  ELSE LET gm == BGather(s.wm.sh, sh) IN [p \in 1..Len(cells) |-> IF s.wm.v[gm[p]] THEN cells[p] ELSE DC(RZero)]
MaskOpnd(s, os) == IF Has(s, "wm") THEN os \o <<[arr |-> s.wm]>> ELSE os

\* ------------------------------------------------------------------ the `op` statement
\* s = [k |-> "op", h, f, a (Seq of operands), kw (optional), + per-f parameters]
ApplyOp(st, s) ==
  LET f == s.f os == s.a kw == Kw(s, "kw", <<>>) IN
  CASE Bin(f) ->
        LET sh == BShape(OpSh(st, os[1]), OpSh(st, os[2])) IN
        MkResultL(st, s, sh, Masked(s, sh, BinCells(st, f, os[1], os[2])), os, ElementwiseLayout(st, MaskOpnd(s, os), sh))
    [] f = "power" ->   \* integer exponent given as parameter s.p  (x ** p)
        LET c == OpCells(st, os[1]) IN
        MkResultL(st, s, OpSh(st, os[1]), [i \in 1..Len(c) |-> DPowInt(c[i], s.p)], os, ElementwiseLayout(st, os, OpSh(st, os[1])))
    [] Un(f) ->
        LET c == OpCells(st, os[1]) IN
        MkResultL(st, s, OpSh(st, os[1]), Masked(s, OpSh(st, os[1]), [i \in 1..Len(c) |-> UnK(f, c[i])]), os,
                  ElementwiseLayout(st, MaskOpnd(s, os), OpSh(st, os[1])))
    [] Un2(f) ->
        LET c == OpCells(st, os[1]) IN
        MkResultL(st, s, OpSh(st, os[1]), [i \in 1..Len(c) |-> Un2K(f, s, c[i])], os, ElementwiseLayout(st, os, OpSh(st, os[1])))
    [] CumF(f) ->
        LET sh0 == OpSh(st, os[1]) c == OpCells(st, os[1])
            flat == ~Has(kw, "axis")
            sh == IF flat THEN <<Size(sh0)>> ELSE sh0
            ax == IF flat THEN 0 ELSE NormAxis(kw.axis[1], Len(sh0))
        IN MkResultL(st, s, sh, CumCells(f, c, sh, ax), os, IF flat THEN Iota(Size(sh)) ELSE ElementwiseLayout(st, os, sh))
    [] f \in {"addseq", "mulseq"} ->
        LET shs == [i \in 1..Len(os) |-> OpSh(st, os[i])] sh == BShapeAll(shs)
            cs == [i \in 1..Len(os) |-> OpCells(st, os[i])] gs == [i \in 1..Len(os) |-> BGather(shs[i], sh)]
        IN MkResultL(st, s, sh, [p \in 1..Size(sh) |-> LET xs == [i \in 1..Len(os) |-> cs[i][gs[i][p]]]
                                                    IN IF f = "addseq" THEN DSumSeq(xs) ELSE DProdSeq(xs)], os,
                     ElementwiseLayout(st, os, sh))
    [] f = "einsum" ->
        LET shs == [i \in 1..Len(os) |-> OpSh(st, os[i])] cs == [i \in 1..Len(os) |-> OpCells(st, os[i])]
        IN MkResult(st, s, [k \in 1..Len(s.out) |-> EinSize(s.subs, shs, s.out[k])], EinCells(s.subs, shs, s.out, cs), os)
    [] f = "conv" ->
        LET xsh == OpSh(st, os[1]) wsh == OpSh(st, os[2]) IN
        MkResult(st, s, ConvShape(xsh, wsh, s.stride, s.pad, s.dil),
                 ConvCells(OpCells(st, os[1]), OpCells(st, os[2]), xsh, wsh, s.stride, s.pad, s.dil), os)
    [] f = "maxpool" ->
        LET xsh == OpSh(st, os[1]) c == OpCells(st, os[1]) osh == PoolShape(xsh, s.pool, s.stride)
            nl == Len(xsh) - Len(s.pool)
        IN MkResult(st, s, osh,
                    [p \in 1..Size(osh) |->
                       LET oi == Unravel(p, osh)
                           win == [q \in 1..Size(s.pool) |->
                                     LET ki == Unravel(q, s.pool)
                                     IN c[Ravel(SubSeq(oi, 1, nl) \o [j \in 1..Len(s.pool) |-> oi[nl + j] * s.stride[j] + ki[j]], xsh)]]
                       IN win[DArgBest(win, 2, 1, FALSE)]], os)
    [] f = "margin_ranking" ->     \* mean(max(0, margin - y * (x1 - x2)));  s.y : [sh, v] of +-1 rationals, s.margin
        LET sh == OpSh(st, os[1]) c1 == OpCells(st, os[1]) c2 == OpCells(st, os[2]) gy == BGather(s.y.sh, sh) n == Size(sh)
        IN MkResult(st, s, <<>>, <<DScale(<<1, n>>, DSumSeq([p \in 1..n |->
                       DMax2(DC(RZero), DSub(DC(s.margin), DScale(s.y.v[gy[p]], DSub(c1[p], c2[p]))))]))>>, os)
    [] f = "multiclass_hinge" ->   \* (1/N) sum_i sum_{j # y_i} max(0, x_ij - x_iy + hinge);  s.y : Seq of class indices (0-based)
        LET sh == OpSh(st, os[1]) c == OpCells(st, os[1]) n == sh[1] k == sh[2]
        IN MkResult(st, s, <<>>, <<DScale(<<1, n>>, DSumSeq([p \in 1..(n * k) |->
                       LET i == (p - 1) \div k j == (p - 1) % k
                       IN IF j = s.y[i + 1] THEN DC(RZero)
                          ELSE DMax2(DC(RZero), DAdd(DSub(c[p], c[i * k + s.y[i + 1] + 1]), DC(s.hinge)))]))>>, os)
    [] Red(f) ->
        LET sh == OpSh(st, os[1]) c == OpCells(st, os[1]) ax == RedAxes(kw, sh)
            grp == ReduceGroups(sh, ax)
        IN MkResultL(st, s, ReduceShape(sh, ax, Kw(kw, "keepdims", FALSE)),
                     [p \in 1..Len(grp) |-> RedK(f, Gather(c, grp[p]), kw)], os,
                     ReduceLayout(st, os[1], sh, ax, Kw(kw, "keepdims", FALSE)))
    [] f = "matmul" ->
        LET sa == OpSh(st, os[1]) sb == OpSh(st, os[2]) ca == OpCells(st, os[1]) cb == OpCells(st, os[2])
            tm == MatmulTerms(sa, sb)
        IN MkResult(st, s, MatmulShape(sa, sb),
                    [p \in 1..Len(tm) |-> DSumSeq([k \in 1..Len(tm[p]) |-> DMul(ca[tm[p][k][1]], cb[tm[p][k][2]])])], os)
    [] f = "multimatmul" ->   \* os[1] @ os[2] @ ... ; every operand 2-D, the first and the last possibly 1-D (row / column)
        LET RECURSIVE Fold(_, _, _)
            Fold(i, sh, c) ==
              IF i > Len(os) THEN [sh |-> sh, c |-> c]
              ELSE LET sb == OpSh(st, os[i]) cb == OpCells(st, os[i]) tm == MatmulTerms(sh, sb)
                   IN Fold(i + 1, MatmulShape(sh, sb),
                           TLCEval([p \in 1..Len(tm) |-> DSumSeq([k \in 1..Len(tm[p]) |-> DMul(c[tm[p][k][1]], cb[tm[p][k][2]])])]))
            r == Fold(2, OpSh(st, os[1]), OpCells(st, os[1]))
            \* a 1-D end of a chain of three or more goes through expand_dims: a VIEW use of that operand
            ends == IF Len(os) < 3 THEN {} ELSE {i \in {1, Len(os)} : Len(OpSh(st, os[i])) = 1}
            st1 == MkResultV(st, s, r.sh, r.c, os, Iota(Len(r.c)), UNION {OpHandles(<<os[i]>>) : i \in ends})
            \* with three or more operands and exactly one 1-D end the result is handed out as a view (`reshape(-1)`) of the
            \* 2-D product, a tensor the caller never holds: `.base` is not None (with two 1-D ends it is the copy `[0, 0]`).  Nothing else about it is modelled (the
            \* generator does not re-use such a result after its graph is cleared).
            hidden == Len(os) >= 3 /\ ((Len(OpSh(st, os[1])) = 1) # (Len(OpSh(st, os[Len(os)])) = 1)) /\ st.track
        IN IF hidden THEN [st1 EXCEPT !.hb = @ \cup {s.h}] ELSE st1
    [] f = "where" ->    \* s.cond : constant boolean array [sh, v]; operands x, y
        LET sx == OpSh(st, os[1]) sy == OpSh(st, os[2]) sh == BShape3(s.cond.sh, sx, sy)
            gc == BGather(s.cond.sh, sh) gx == BGather(sx, sh) gy == BGather(sy, sh)
            cx == OpCells(st, os[1]) cy == OpCells(st, os[2])
        IN MkResultL(st, s, sh, [p \in 1..Size(sh) |-> IF s.cond.v[gc[p]] THEN cx[gx[p]] ELSE cy[gy[p]]], os,
                     ElementwiseLayout(st, <<[arr |-> s.cond]>> \o os, sh))
    [] f \in {"concatenate", "stack"} ->
        LET shs0 == [i \in 1..Len(os) |-> OpSh(st, os[i])]
            ax0 == s.axis
            \* stack = concatenate after inserting a new axis in every operand
            nd == IF f = "stack" THEN Len(shs0[1]) + 1 ELSE Len(shs0[1])
            ax == NormAxis(ax0, nd)
            shs == IF f = "stack" THEN [i \in 1..Len(os) |-> ExpandShape(shs0[i], {ax})] ELSE shs0
            g == ConcatGather(shs, ax)
            cs == [i \in 1..Len(os) |-> OpCells(st, os[i])]
            \* the output keeps the axis order of the operands' memory (np.concatenate sorts the axes by the operands' strides)
            prs == [i \in 1..Len(os) |-> [imap |-> OpPair(st, os[i]).imap, sh |-> shs[i]]]
        IN MkResultL(st, s, ConcatShape(shs, ax), [p \in 1..Len(g) |-> cs[g[p][1]][g[p][2]]], os,
                     LayoutFrom(prs, ConcatShape(shs, ax)))
    [] f \in StructF ->
        LET a == os[1].h src == st.H[a]
            sh == StructShape(f, s, src.sh) g == StructGather(f, s, src.sh)
            newimap == Gather(src.imap, g)
            \* KNOWN FINDING F-C04-1 (trigger): NumPy hands back the operand array itself (a squeeze with
            \* nothing to squeeze, on a memory owner).  MyGrad then records a NON-view tensor over the same
            \* array (no .base, no view bookkeeping), so later in-place updates do not propagate.
            passthru == f \in {"squeeze", "atleast"} /\ sh = src.sh /\ src.base = 0
            \* KNOWN FINDING F-C02-1 (trigger): repeat of a tensor with a zero-length axis cannot be back-propagated
            emptyrep == f = "repeat" /\ Size(src.sh) = 0
            \* KNOWN FINDING F-C02-2 (trigger): the diagonal einsum of an empty matrix cannot be back-propagated either
            emptydiag == f = "diag" /\ Size(src.sh) = 0
            \* (same root cause, gradient side: replaying a no-op squeeze on a gradient ARRAY hands back the array itself; when the
            \*  parent is a detached owner the view's cached gradient then passes the staleness test - None is None - after the
            \*  parent's gradient was dropped)
            noopsq == f \in {"squeeze", "atleast"} /\ sh = src.sh
            st0 == [st EXCEPT !.kf = @ \cup (IF passthru \/ noopsq THEN {"F-C04-1"} ELSE {}) \cup (IF emptyrep THEN {"F-C02-1"} ELSE {})
                                       \cup (IF emptydiag THEN {"F-C02-2"} ELSE {})]
        IN IF StructIsView(f, s, src, newimap, sh)
           THEN MkView(st0, s, a, sh, g)
           ELSE IF f = "roll" THEN MkResultL(st0, s, sh, Gather(Cells(st, a), g), os, ElementwiseLayout(st, os, sh))   \* np.roll fills empty_like(a)
           ELSE MkResult(st0, s, sh, Gather(Cells(st, a), g), os)

\* ------------------------------------------------------------------ leaves
\* s = [k |-> "leaf", h, sh, v (Seq of Rat), const]
\* integer and boolean tensors are constant whatever was asked for (C10)
LeafConst(s) == s.const \/ Kw(s, "dt", "f8") \in {"i8", "b1"}
\* order = "F": the tensor is built from a Fortran-ordered array (mg.tensor keeps the layout of what it copies)
LeafLayout(s) == IF Kw(s, "order", "C") = "F" /\ Len(s.sh) >= 2
                 THEN LET n == Len(s.sh) fst == [a \in 1..n |-> SeqProd(SubSeq(s.sh, 1, a - 1))]
                      IN [p \in 1..Size(s.sh) |-> LET oi == Unravel(p, s.sh) IN 1 + SeqSum([a \in 1..n |-> oi[a] * fst[a]])]
                 ELSE Iota(Len(s.v))
ApplyLeaf(st, s) ==
  LET c == LeafConst(s)
      lay == LeafLayout(s)
      n == Len(s.v)
      inv == [m \in 1..n |-> CHOOSE p \in 1..n : lay[p] = m]
      st1 == NewBuf(st, [m \in 1..n |-> DC(s.v[inv[m]])], c)
      st2 == NewNodeB(st1, <<>>, c, FALSE, Len(st1.mem))
  IN PutH(st2, s.h, MkH("t", Len(st1.mem), lay, s.sh, c, Len(st2.N), 0, 0))

\* ------------------------------------------------------------------ in-place updates
\* The view family of root r: r and every registered (live) view descendant.
RECURSIVE Family(_, _)
\* (a view the user has dropped stays registered as long as the object lives on - e.g. as the parent of another view -
\*  so membership does not depend on `live`; a dropped view nobody refers to is unobservable either way)
Family(st, h) == {h} \cup UNION {Family(st, k) : k \in st.H[h].kids}

\* every member of `todo` (view tensors) is re-created from its (already re-created) parent: it gets a new graph node
\* whose only parent is its parent's current node; parents first
RECURSIVE Recreate(_, _)
Recreate(s, todo) ==
  IF todo = {} THEN s ELSE
  LET h == CHOOSE x \in todo : s.H[x].par \notin todo
      s1 == NewNode(s, <<s.H[s.H[h].par].node>>, s.H[h].const, TRUE)
  IN Recreate([s1 EXCEPT !.H[h].node = Len(s1.N)], todo \ {h})

\* In-place update through target t.  `newc` : buffer cell -> Dual for the cells that change; srcs = operands.
\* MyGrad performs the update on a COPY of the base's memory and re-creates every registered view on it, so
\* the family moves to a fresh buffer; aliases outside the family (there are none within one graph epoch,
\* which is the scope of C04) keep the old one.  All cells of the new buffer get fresh perturbation
\* variables: the post-update value of the base is what `x.grad` refers to from now on (C05).
\* with tracking off an in-place update writes straight into the tensor's own memory (every alias sees it),
\* records nothing and leaves all gradients alone (C15)
InPlaceUntracked(st, t, newc) ==
  LET b == st.H[t].buf IN
  [st EXCEPT !.mem[b] = [c \in 1..Len(@) |-> IF c \in DOMAIN newc
                                               THEN D(newc[c].v, IF st.pv[b][c] = 0 THEN TZero ELSE TUnit(st.pv[b][c]))
                                               ELSE @[c]]]

InPlace(st, t, newc, srcs, oldIsInput) ==
  IF ~st.track THEN InPlaceUntracked(st, t, newc) ELSE
  LET tr == st.H[t]
      \* an in-place update on a stale view: the tensor first detaches (it becomes its own base) (C07)
      detach == tr.base # 0 /\ (~HasCr(st, t) \/ t \notin Family(st, tr.base))
      r == IF tr.base = 0 \/ detach THEN t ELSE tr.base
      b == tr.buf
      n == Len(st.mem[b])
      const == st.H[r].const
      fam == Family(st, r)
      \* MyGrad performs the update on `base.copy()`.  For a root that owns its buffer the copy has the same layout; a
      \* root that does NOT own its memory (a disconnected view that became a base of its own) is compacted by the copy:
      \* only its own cells survive, laid out the way np.copy ("K" order) lays them out
      rs == st.H[r]
      compact == st.N[rs.node].buf = 0 /\ Size(rs.sh) >= 1
      nr == Size(rs.sh)
      lay == IF compact THEN ElementwiseLayout(st, <<[h |-> r]>>, rs.sh) ELSE <<>>
      old2new(c) == IF compact THEN lay[CHOOSE p \in 1..nr : rs.imap[p] = c] ELSE c
      raw  == IF compact
              THEN TLCEval([cn \in 1..nr |-> LET p == CHOOSE q \in 1..nr : lay[q] = cn
                                               c == rs.imap[p]
                                           IN IF c \in DOMAIN newc THEN newc[c] ELSE st.mem[b][c]])
              ELSE TLCEval([c \in 1..n |-> IF c \in DOMAIN newc THEN newc[c] ELSE st.mem[b][c]])
      \* gradients: the family's gradient is gone; so is that of owners used as value operands
      \* KNOWN FINDING F-C09-1 (trigger): an operation recorded BEFORE some clear_graph/backward emptied the
      \* consumer set of a family member still consumes that member; MyGrad's in-place machinery re-routes
      \* only the consumers still listed, so that operation silently sees the mutated tensor.
      \* Such a consumer still points at the PUBLIC tensor.  When its graph is back-propagated later, MyGrad's
      \* staleness guard (empty consumer set => InvalidBackprop) catches this - unless the public tensor has acquired
      \* consumers again (its views were re-created, or it is used in a new operation) or is a constant (constants
      \* are never checked).  Only then is the defect silent; until then the handles are merely `pend`ing.
      missedH == {x \in fam : \E m \in DOMAIN st.N : st.N[m].cr /\
                    \E i \in 1..Len(st.N[m].par) : st.N[m].par[i] = st.H[x].node /\ st.N[st.N[m].par[i]].clrAt > st.N[m].born}
      silent == missedH # {} /\ (const \/ Cardinality(fam) > 1 \/ missedH \cap st.pend # {})
      \* (a pending tensor used as an operand of this update acquires a consumer again: silent from now on, as in MkResultL)
      st0 == [NullOnUse(st, OpHandles(srcs) \ fam) EXCEPT !.kf = IF silent \/ OpHandles(srcs) \cap st.pend # {}
                                                                  THEN @ \cup {"F-C09-1"} ELSE @,
                                                           !.pend = @ \cup missedH]
      st1 == [NewBuf(st0, raw, const) EXCEPT !.g[r] = None]
      nb == Len(st1.mem)
      \* graph: the root gets a new node whose parents are the old nodes of root, target and operands
      oldn(h) == st.H[h].node
      \* (the old contents are an input of the update unless a ufunc with out= and no where= simply
      \*  replaces the whole base: then nothing upstream of the old contents is upstream of the new ones)
      rootpar == (IF oldIsInput \/ t # r THEN <<oldn(r)>> ELSE <<>>)
                 \o (IF t # r /\ oldIsInput THEN <<oldn(t)>> ELSE <<>>) \o OpNodes(st, srcs)
      st2 == NewNodeB(st1, rootpar, const, TRUE, nb)
      st3 == [st2 EXCEPT !.H = [h \in DOMAIN @ |->
                                  IF h = r THEN [@[h] EXCEPT !.buf = nb, !.node = Len(st2.N), !.base = 0, !.par = 0,
                                                            !.imap = [k \in 1..Len(@) |-> old2new(@[k])]]
                                  \* (re-created views hang off the root of THIS update: when the target had detached
                                  \*  from a lingering base, its registered views follow it)
                                  ELSE IF h \in fam THEN [@[h] EXCEPT !.buf = nb, !.base = r,
                                                                      !.imap = [k \in 1..Len(@) |-> old2new(@[k])]]
                                  ELSE @[h]]]
  IN Recreate(st3, fam \ {r})

\* NumPy's rule for assigning a value of shape vs into a selection of shape ish
\* (an element selected by integers only accepts a 0-d value: NumPy 2 refuses "a[0] = array([5.])")
AssignOK(vs, ish) ==
  LET lead == Len(vs) - Len(ish) IN
  IF lead <= 0 THEN BTo(vs, ish)
  ELSE (\A i \in 1..lead : vs[i] = 1) /\ BTo(SubSeq(vs, lead + 1, Len(vs)), ish)
AssignGatherShape(vs, ish) == IF Len(vs) > Len(ish) THEN SubSeq(vs, Len(vs) - Len(ish) + 1, Len(vs)) ELSE vs

ApplySetItem(st, s) ==
  LET tr == st.H[s.t]
      ish == IndexShape(s.ix, tr.sh) ig == IndexGather(s.ix, tr.sh)
      vs == AssignGatherShape(OpSh(st, s.val), ish) vc == OpCells(st, s.val)
      vg == BGather(vs, ish)
      cellOf == [k \in 1..Len(ig) |-> tr.imap[ig[k]]]
      dom == {cellOf[k] : k \in 1..Len(ig)}
      newc == [c \in dom |-> LET k == CHOOSE j \in 1..Len(ig) : cellOf[j] = c /\ \A j2 \in 1..Len(ig) : cellOf[j2] = c => j2 <= j
                             IN vc[vg[k]]]
  IN InPlace(st, s.t, newc, <<s.val>>, TRUE)

\* t <f>= val     (augmented assignment; also `ufunc(t, val, out=t)`)
ApplyAug(st, s) ==
  LET tr == st.H[s.t] cur == Cells(st, s.t)
      vs == OpSh(st, s.val) vc == OpCells(st, s.val) vg == BGather(vs, tr.sh)
      newc == [c \in CellSet(st, s.t) |-> LET k == CHOOSE j \in 1..Len(tr.imap) : tr.imap[j] = c
                                         IN BinK(s.f, cur[k], vc[vg[k]])]
  IN InPlace(st, s.t, newc, <<s.val>>, TRUE)

\* ufunc(a [, b], out=t, where=mask):   cells where the mask is FALSE keep their old content
ApplyUfuncOut(st, s) ==
  LET tr == st.H[s.out] os == s.a
      sh == tr.sh
      msk == IF Has(s, "where") THEN Gather(s.where.v, BGather(s.where.sh, sh)) ELSE [p \in 1..Size(sh) |-> TRUE]
      res == IF Len(os) = 2 THEN
                LET c1 == OpCells(st, os[1]) c2 == OpCells(st, os[2])
                    g1 == BGather(OpSh(st, os[1]), sh) g2 == BGather(OpSh(st, os[2]), sh)
                IN [p \in 1..Size(sh) |-> BinK(s.f, c1[g1[p]], c2[g2[p]])]
             ELSE LET c1 == OpCells(st, os[1]) g1 == BGather(OpSh(st, os[1]), sh)
                  IN [p \in 1..Size(sh) |-> UnK(s.f, c1[g1[p]])]
      dom == {tr.imap[p] : p \in {q \in 1..Size(sh) : msk[q]}}
      newc == [c \in dom |-> LET p == CHOOSE q \in 1..Size(sh) : tr.imap[q] = c IN res[p]]
  IN InPlace(st, s.out, newc, os, Has(s, "where"))

\* ------------------------------------------------------------------ graph traversal
\* nodes reachable from n through creators; a node without creator is a leaf of the traversal
RECURSIVE UpAll(_, _)
UpAll(st, n) == {n} \cup (IF st.N[n].cr THEN UNION {UpAll(st, st.N[n].par[i]) : i \in 1..Len(st.N[n].par)} ELSE {})
\* the same, but the traversal does not expand constant nodes (they are visited, not entered)
RECURSIVE UpDiff(_, _)
UpDiff(st, n) == {n} \cup (IF st.N[n].cr /\ ~st.N[n].const
                           THEN UNION {UpDiff(st, st.N[n].par[i]) : i \in 1..Len(st.N[n].par)} ELSE {})

\* ------------------------------------------------------------------ availability of `.grad` (Tensor.grad property)
\* An owner shows its own gradient.  A view shows (i) its cached view-gradient while that cache is a view of the base's
\* CURRENT gradient array, else (ii) nothing when the base has no gradient or the view has lost its creator, else
\* (iii) the replay of its view operation on its PARENT's `.grad` - recursively, so a chain of views is only as
\* good as its weakest link (a parent whose graph and cache are gone yields None for every descendant).
CacheValid(st, h) == LET r == st.H[h] IN r.gc # 0 /\ r.gc = st.gen[r.base]
NeedsParent(st, h) == LET r == st.H[h] IN
  r.base # 0 /\ ~r.const /\ ~IsNone(st.g[r.base]) /\ ~CacheValid(st, h) /\ HasCr(st, h)
\* the owner whose gradient array a read of h.grad derives from (0: the read yields None)
RECURSIVE GradSrc(_, _)
GradSrc(st, h) ==
  LET r == st.H[h] IN
  IF r.const THEN 0
  ELSE IF r.base = 0 THEN (IF IsNone(st.g[h]) THEN 0 ELSE h)
  ELSE IF IsNone(st.g[r.base]) THEN 0
  ELSE IF CacheValid(st, h) THEN r.base
  ELSE IF ~HasCr(st, h) \/ r.par = 0 THEN 0
  ELSE GradSrc(st, r.par)
GradAvail(st, h) == GradSrc(st, h) # 0
\* Reading `.grad` is not free of effects: every view on the chain that had to be recomputed caches the result.
\* (The harness reads the gradient of every live handle after every statement.)
RECURSIVE GradChain(_, _)
GradChain(st, h) == {h} \cup (IF NeedsParent(st, h) /\ st.H[h].par # 0 THEN GradChain(st, st.H[h].par) ELSE {})
ReadGrads(st, hs) ==
  LET touched == UNION {GradChain(st, h) : h \in hs} IN
  \* what is cached is a view of the SOURCE's gradient array; the validity test (CacheValid) compares it with the
  \* array of the tensor's `base` - the two differ when a parent on the chain has detached from the common base
  [st EXCEPT !.H = [h \in DOMAIN st.H |-> IF h \in touched /\ st.H[h].base # 0 /\ GradAvail(st, h)
                                           THEN [st.H[h] EXCEPT !.gc = st.gen[GradSrc(st, h)]] ELSE st.H[h]]]

\* clear_graph from node set ns: creators dropped, view registrations dropped; a view that loses its creator
\* caches ("pulls") the current view of its base's gradient
ClearNodes(st, ns) ==
  LET hs == {h \in AllH(st) : st.H[h].node \in ns}
      \* (Tensor.clear_graph reads self.grad before dropping the creator; children are visited before parents)
      newgc(h) == LET r == st.H[h] IN
                  IF r.base # 0 /\ st.N[r.node].cr
                  THEN (IF GradAvail(st, h) THEN st.gen[GradSrc(st, h)] ELSE 0)
                  ELSE r.gc
      st1 == [st EXCEPT !.N = [n \in DOMAIN @ |-> IF n \in ns THEN [@[n] EXCEPT !.cr = FALSE, !.clr = TRUE, !.clrAt = st.clk] ELSE @[n]],
                        !.H = [h \in DOMAIN @ |-> IF h \in hs THEN [@[h] EXCEPT !.kids = {}, !.gc = newgc(h)] ELSE @[h]]]
      \* A cleared tensor that had a creator is a LEAF from now on: whatever is (or was) computed from it no
      \* longer differentiates through its former history - backward() through an older graph that reaches it
      \* stops there (the behaviour the repository's state-machine test pins down).  In terms of tangents this
      \* is a change of variables: for every cell c of the cleared tensor with tangent  unit(v_c) + u_c , every
      \* dual anywhere in memory loses  coef(v_c) * u_c , and the cell itself keeps  unit(v_c).
      cutbufs == {st.N[n].buf : n \in {x \in ns : st.N[x].cr /\ ~st.N[x].const /\ st.N[x].buf # 0}}
      RECURSIVE Cut(_, _)
      Cut(x, todo) ==
        IF todo = {} THEN x ELSE
        LET b == CHOOSE y \in todo : TRUE
            n == Len(x.mem[b])
            up == TLCEval([c \in 1..n |-> [k \in (DOMAIN x.mem[b][c].t) \ {x.pv[b][c]} |-> x.mem[b][c].t[k]]])
            cs == {c \in 1..n : DOMAIN up[c] # {}}
            RECURSIVE Sub(_, _)
            Sub(t, rest) == IF rest = {} THEN t ELSE
                            LET c == CHOOSE y \in rest : TRUE
                                k == TGet(t, x.pv[b][c])
                            IN Sub(IF RIsZero(k) THEN t ELSE TAdd(t, TScale(RNeg(k), up[c])), rest \ {c})
        IN IF cs = {} THEN Cut(x, todo \ {b})
           ELSE Cut([x EXCEPT !.mem = TLCEval([b2 \in DOMAIN @ |-> TLCEval([d \in DOMAIN @[b2] |->
                                          IF b2 = b /\ d \in cs THEN D(@[b2][d].v, TUnit(x.pv[b][d]))
                                          ELSE IF DOMAIN @[b2][d].t = {} THEN @[b2][d]
                                          ELSE D(@[b2][d].v, TLCEval(Sub(@[b2][d].t, cs)))])])], todo \ {b})
  IN Cut(st1, cutbufs)

\* ------------------------------------------------------------------ backward
SeedOK(st, s) == ~Has(s, "seed") \/ (BTo(OpSh(st, s.seed), st.H[s.h].sh))
SeedCells(st, s) ==
  LET sh == st.H[s.h].sh IN
  IF ~Has(s, "seed") THEN [p \in 1..Size(sh) |-> ROne]
  ELSE LET c == OpCells(st, s.seed) g == BGather(OpSh(st, s.seed), sh) IN [p \in 1..Size(sh) |-> c[g[p]].v]

Adjoint(st, tot, h) ==     \* stored per cell of the owner's buffer
  LET b == st.H[h].buf IN [c \in 1..Len(st.mem[b]) |-> TGet(tot, st.pv[b][c])]

\* a backward through a graph part of which was cleared AFTER it was recorded may raise InvalidBackprop (C09)
PartialClear(st, L) ==
  \E m \in UpDiff(st, st.H[L].node) : st.N[m].cr /\ ~st.N[m].const /\
     \E i \in 1..Len(st.N[m].par) : st.N[st.N[m].par[i]].clrAt > st.N[m].born

\* the releasing traversal of backward() (it also walks through constants) reaches an operation recorded before one of
\* its inputs was cleared: with a pending F-C09-1 consumer this is where the traversal crosses into the mutated tensor's
\* NEW graph and clears it (no staleness guard on this path) - the known finding becomes manifest
CrossesMissed(st, n) ==
  st.pend # {} /\ \E m \in UpAll(st, n) : st.N[m].cr /\ \E i \in 1..Len(st.N[m].par) : st.N[st.N[m].par[i]].clrAt > st.N[m].born
ApplyBackward(st00, s) ==
  LET L == s.h lr == st00.H[L]
      \* (where the GRADIENT traversal itself meets an operation one of whose inputs was cleared after it was recorded,
      \*  MyGrad's staleness guard must raise InvalidBackprop - PartialClear - and nothing is excused)
      st == [st00 EXCEPT !.kf = IF st00.track /\ CrossesMissed(st00, lr.node) /\ ~PartialClear(st00, L)
                                THEN @ \cup {"F-C09-1"} ELSE @] IN
  IF ~st.track THEN st        \* backward() does nothing while tracking is off
  ELSE IF lr.const THEN ClearNodes(st, UpAll(st, lr.node))
  ELSE
  LET seed == SeedCells(st, s)
      c == Cells(st, L)
      tot == DSumSeq([k \in 1..Len(c) |-> DScale(seed[k], c[k])]).t
      upd == UpDiff(st, lr.node)
      vis == {h \in AllH(st) : st.H[h].node \in upd}                    \* tensors visited
      wr  == {h \in vis : ~st.H[h].const /\ st.H[h].base = 0}           \* owners that receive a gradient
      st1 == [st EXCEPT !.g = [h \in DOMAIN @ |-> IF h \in wr THEN Some(Adjoint(st, tot, h))
                                                  ELSE IF h \in vis /\ st.H[h].base = 0 THEN None ELSE @[h]],
                        !.gen = [h \in DOMAIN @ |-> IF h \in wr THEN st.ngen + h ELSE @[h]],
                        !.ngen = @ + Len(st.H) + 1]
      bad == \E h \in wr : \E ci \in 1..Len(st1.g[h].v) : Big(st1.g[h].v[ci])
  IN ClearNodes([st1 EXCEPT !.oor = @ \/ bad], UpAll(st, lr.node))

\* ------------------------------------------------------------------ projection (what a user can observe)
\* gradient read through the public `.grad` property
ObsGrad(st, h) ==
  LET r == st.H[h] src == GradSrc(st, h) IN
  IF src = 0 THEN None
  ELSE IF IsUnspec(st.g[src]) THEN Unspec
  ELSE Some([k \in 1..Len(r.imap) |-> st.g[src].v[r.imap[k]]])      \* an owner's gradient is stored per buffer cell
ObsBase(st, h) == LET b == st.H[h].base IN IF h \in st.hb THEN -1 ELSE IF b # 0 /\ ~st.H[b].live THEN -1 ELSE b
\* ------------------------------------------------------------------ other statements
\* (clear_graph has no staleness guard: with a pending F-C09-1 consumer the traversal may cross into the mutated
\*  tensor's new graph - the known finding becomes manifest)
ApplyClear(st, s) == ClearNodes([st EXCEPT !.kf = IF st.pend # {} THEN @ \cup {"F-C09-1"} ELSE @], UpAll(st, st.H[s.h].node))
ApplyNullGrad(st, s) == IF st.H[s.h].base = 0 THEN [st EXCEPT !.g[s.h] = None]
                        ELSE [st EXCEPT !.H[s.h].gc = 0]
ApplyDrop(st, s) == [st EXCEPT !.H[s.h].live = FALSE]
\* t.copy(): fresh memory, no graph, same constant flag, and a COPY of the source's gradient (C17)
ApplyCopy(st, s) ==
  LET a == s.a[1].h src == st.H[a]
      \* np.copy keeps the memory layout ("K" order), like an elementwise operation on the source alone
      lay == ElementwiseLayout(st, s.a, src.sh)
      n == Len(src.imap)
      vals == Vals(st, a)
      inv == [c \in 1..n |-> CHOOSE q \in 1..n : lay[q] = c]
      st1 == NewBuf(st, [c \in 1..n |-> DC(vals[inv[c]])], src.const)
      st2 == NewNodeB(st1, <<>>, src.const, FALSE, Len(st1.mem))
      st3 == PutH(st2, s.h, MkH("t", Len(st1.mem), lay, src.sh, src.const, Len(st2.N), 0, 0))
      \* Tensor.copy copies the tensor's OWN gradient slot.  For a view that is not what `.grad` shows (the matching
      \* view of the base's gradient) but what was back-propagated through the view tensor alone - possibly nothing:
      \* the properties do not say which gradient a copy of a view carries, so it is left unspecified
      og == IF src.const THEN None ELSE IF src.base = 0 THEN st.g[a] ELSE Unspec
  IN IF IsNone(og) THEN st3
     ELSE IF IsUnspec(og) THEN [st3 EXCEPT !.g[s.h] = Unspec]
     ELSE [st3 EXCEPT !.g[s.h] = Some([c \in 1..n |-> og.v[src.imap[inv[c]]]]), !.gen[s.h] = st.ngen + 1, !.ngen = @ + 2]
\* the user edits a gradient array in place:  h.grad[ix] = c   (C12: aliasing of gradients)
ApplyEditGrad(st, s) ==
  LET r == Root(st, s.h) hr == st.H[s.h]
      ig == IndexGather(s.ix, hr.sh)
      cells == {hr.imap[ig[k]] : k \in 1..Len(ig)}
  IN IF IsNone(ObsGrad(st, s.h)) \/ IsUnspec(ObsGrad(st, s.h)) THEN st
     ELSE [st EXCEPT !.g[r] = Some([c \in 1..Len(@.v) |-> IF c \in cells THEN s.c ELSE @.v[c]])]
\* t.shape = newshape : in-place reshape of ONE tensor (its views keep their own shapes); NumPy refuses it when the
\* new shape cannot be described by strides over the same memory (then the statement is a failing statement)
SetShapeOK(st, s) == ReshapeOK(st.H[s.t].sh, s.sh) /\ Affine(st.H[s.t].imap, ResolveShape(s.sh, Size(st.H[s.t].sh)))
ApplySetShape(st, s) ==
  LET hr == st.H[s.t] nsh == ResolveShape(s.sh, Size(hr.sh)) IN
  IF s.sh = hr.sh \/ ~st.track THEN [st EXCEPT !.H[s.t].sh = nsh]      \* (the code compares the shapes literally)
  ELSE IF hr.base = 0
  \* a memory owner: an in-place update that changes no value - earlier consumers keep the old tensor, the reshaped
  \* one is a new node (fresh perturbation variables), its gradient is dropped, its views are re-created
  \* (the setter re-registers a consumer on the reshaped tensor, so an un-re-routed older consumer - F-C09-1 - is
  \*  never caught by the staleness guard: manifest at once)
  THEN LET st1 == InPlace(st, s.t, <<>>, <<>>, TRUE)
       IN [st1 EXCEPT !.H[s.t].sh = nsh, !.kf = IF st1.pend # st.pend THEN @ \cup {"F-C09-1"} ELSE @]
  \* a view: it stays a view of its base (whose gradient is untouched); its own registered views are re-created
  ELSE LET st1 == NewNode(st, <<hr.node>>, hr.const, TRUE)
           st2 == [st1 EXCEPT !.H[s.t].sh = nsh, !.H[s.t].node = Len(st1.N), !.H[s.t].gc = 0]
       IN Recreate(st2, Family(st, s.t) \ {s.t})
\* scopes: only no_autodiff changes what the reference observes (the memory guard is MemGuard.tla's subject)
ApplyEnter(st, s) == IF s.m = "no_autodiff" THEN [st EXCEPT !.tsaved = Append(@, st.track), !.track = FALSE] ELSE st
ApplyExit(st, s)  == IF s.m = "no_autodiff" THEN [st EXCEPT !.track = st.tsaved[Len(st.tsaved)], !.tsaved = SubSeq(@, 1, Len(@) - 1)]
                     ELSE st

ApplyRaw(st0, s) ==
  LET st == [st0 EXCEPT !.clk = @ + 1] IN
  CASE s.k = "leaf"     -> ApplyLeaf(st, s)
    [] s.k = "op"       -> ApplyOp(st, s)
    [] s.k = "setitem"  -> ApplySetItem(st, s)
    [] s.k = "aug"      -> ApplyAug(st, s)
    [] s.k = "uout"     -> ApplyUfuncOut(st, s)
    [] s.k = "backward" -> ApplyBackward(st, s)
    [] s.k = "clear"    -> ApplyClear(st, s)
    [] s.k = "nullgrad" -> ApplyNullGrad(st, s)
    [] s.k = "drop"     -> ApplyDrop(st, s)
    [] s.k = "copy"     -> ApplyCopy(st, s)
    [] s.k = "setshape" -> ApplySetShape(st, s)
    [] s.k = "editgrad" -> ApplyEditGrad(st, s)
    [] s.k = "enter"    -> ApplyEnter(st, s)
    [] s.k = "exit"     -> ApplyExit(st, s)

\* one statement followed by the observation of every live tensor (projection reads `.grad`, which fills caches)
Apply(st0, s) == LET st1 == ApplyRaw(st0, s) IN ReadGrads(st1, {h \in DOMAIN st1.H : st1.H[h].live})

=============================================================================

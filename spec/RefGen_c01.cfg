SPECIFICATION Spec
CONSTANTS
  MaxStmts = 2
  MaxH = 5
  Case = 1
  Alphabet = {"bin", "scal", "sum", "matmul", "view", "square"}
INVARIANT Emit
INVARIANT GradOnlyIfNonConst
INVARIANT BaseIsOwner
INVARIANT SharingIsFamily
CHECK_DEADLOCK FALSE

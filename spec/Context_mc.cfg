SPECIFICATION Spec
CONSTANTS
  MaxLen = 0
  MaxDepth = 7
  EmitHist = FALSE
INVARIANT DepthConsistent
INVARIANT TrackDefault
PROPERTY ScopedRestore
PROPERTY EnterSets
PROPERTY DefaultOutside
CHECK_DEADLOCK FALSE

SPECIFICATION Spec
CONSTANTS
  MaxLen = 0
  MaxDepth = 5
  TurnInside = TRUE
  EmitHist = FALSE
INVARIANT DepthConsistent
INVARIANT TrackDefault
PROPERTY ScopedRestore
PROPERTY EnterSets
PROPERTY DefaultOutside
CHECK_DEADLOCK FALSE

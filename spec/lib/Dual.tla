------------------------------- MODULE Dual -------------------------------
(* Forward-mode dual numbers over exact rationals.                          *)
(* A dual is [v |-> Rat, t |-> tangent] where a tangent is a finite function *)
(* VarId -> Rat (a sparse gradient with respect to "perturbation            *)
(* variables").  Every memory cell of every non-constant tensor owns one     *)
(* perturbation variable, so the exact derivative of any recorded program    *)
(* with respect to any tensor element is read off the tangent of the result: *)
(* no backward rule is ever written at the reference level.                  *)
EXTENDS Rat, TLC

TZero        == <<>>                                   \* empty function
TGet(f, k)   == IF k \in DOMAIN f THEN f[k] ELSE RZero
TAdd(f, g)   == IF DOMAIN f = {} THEN g ELSE IF DOMAIN g = {} THEN f
                ELSE TLCEval([k \in DOMAIN f \cup DOMAIN g |-> RAdd(TGet(f, k), TGet(g, k))])
TScale(c, f) == IF RIsZero(c) THEN TZero ELSE TLCEval([k \in DOMAIN f |-> RMul(c, f[k])])
TNeg(f)      == TLCEval([k \in DOMAIN f |-> RNeg(f[k])])
TUnit(k)     == [x \in {k} |-> ROne]

D(v, t)      == [v |-> v, t |-> t]
DC(v)        == D(v, TZero)                            \* constant
DI(n)        == DC(R(n))
DAdd(a, b)   == D(RAdd(a.v, b.v), TAdd(a.t, b.t))
DNeg(a)      == D(RNeg(a.v), TNeg(a.t))
DSub(a, b)   == DAdd(a, DNeg(b))
DMul(a, b)   == D(RMul(a.v, b.v), TAdd(TScale(b.v, a.t), TScale(a.v, b.t)))
DScale(c, a) == D(RMul(c, a.v), TScale(c, a.t))
DInv(a)      == LET i == RInv(a.v) IN D(i, TScale(RNeg(RMul(i, i)), a.t))
DDiv(a, b)   == DMul(a, DInv(b))
DSquare(a)   == D(RMul(a.v, a.v), TScale(RMul(R(2), a.v), a.t))

RECURSIVE DPowNat(_, _)
DPowNat(a, k) == IF k = 0 THEN DC(ROne) ELSE DMul(a, DPowNat(a, k - 1))
DPowInt(a, k) == IF k >= 0 THEN DPowNat(a, k) ELSE DInv(DPowNat(a, -k))

(* Piecewise kernels.  The branch follows the value; at a kink the          *)
(* documented MyGrad convention is used (C02).                               *)
DAbs(a)      == IF a.v[1] > 0 THEN a ELSE IF a.v[1] < 0 THEN DNeg(a) ELSE DC(RZero)
DRelu(a)     == IF a.v[1] > 0 THEN a ELSE DC(RZero)
\* maximum / minimum: at a tie neither operand receives gradient (tests pin this)
DMax2(a, b)  == IF RLt(b.v, a.v) THEN a ELSE IF RLt(a.v, b.v) THEN b ELSE DC(a.v)
DMin2(a, b)  == IF RLt(a.v, b.v) THEN a ELSE IF RLt(b.v, a.v) THEN b ELSE DC(a.v)

RECURSIVE DSumSeq(_)
DSumSeq(xs) == IF xs = <<>> THEN DC(RZero) ELSE DAdd(Head(xs), DSumSeq(Tail(xs)))
RECURSIVE DProdSeq(_)
DProdSeq(xs) == IF xs = <<>> THEN DC(ROne) ELSE DMul(Head(xs), DProdSeq(Tail(xs)))
=============================================================================

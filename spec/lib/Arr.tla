------------------------------- MODULE Arr -------------------------------
(* Shape / index arithmetic of N-dimensional row-major arrays, generic in   *)
(* the element type.  Every structural operation of NumPy that MyGrad wraps  *)
(* is expressed as a GATHER: a sequence g with                               *)
(*        out_flat[k] = src_flat[g[k]]      (1-based flat positions)         *)
(* together with an output shape.  The same gather is applied to values, to  *)
(* dual numbers and to *index maps* (sequences of buffer cells), which is    *)
(* how views are modelled without any stride reasoning (DESIGN C04).         *)
EXTENDS Integers, Sequences, FiniteSets, TLC

\* ---------------------------------------------------------------- basics
SeqProd(s) == LET RECURSIVE P(_)
                  P(i) == IF i > Len(s) THEN 1 ELSE s[i] * P(i + 1)
              IN P(1)
SeqSum(s)  == LET RECURSIVE P(_)
                  P(i) == IF i > Len(s) THEN 0 ELSE s[i] + P(i + 1)
              IN P(1)
Size(sh)   == SeqProd(sh)
Iota(n)    == [i \in 1..n |-> i]
MaxN(a, b) == IF a >= b THEN a ELSE b
MinN(a, b) == IF a <= b THEN a ELSE b
RangeOf(s) == {s[i] : i \in 1..Len(s)}
\* concatenation of a sequence of sequences
Flatten(ss) == LET RECURSIVE F(_)
                   F(i) == IF i > Len(ss) THEN <<>> ELSE ss[i] \o F(i + 1)
               IN F(1)
\* subsequence selected by a predicate on positions
SelectIdx(n, P(_)) == LET RECURSIVE F(_)
                          F(i) == IF i > n THEN <<>> ELSE (IF P(i) THEN <<i>> ELSE <<>>) \o F(i + 1)
                      IN F(1)

\* row-major strides in elements: st[i] = prod(sh[i+1..])
Strides(sh) == [i \in 1..Len(sh) |-> LET RECURSIVE P(_)
                                         P(j) == IF j > Len(sh) THEN 1 ELSE sh[j] * P(j + 1)
                                     IN P(i + 1)]
\* 0-based multi-index of 1-based flat position p
Unravel(p, sh) == LET st == Strides(sh) IN [i \in 1..Len(sh) |-> ((p - 1) \div st[i]) % sh[i]]
\* 1-based flat position of a 0-based multi-index
Ravel(idx, sh) == LET st == Strides(sh) IN 1 + SeqSum([i \in 1..Len(sh) |-> idx[i] * st[i]])

NormAxis(a, nd) == IF a < 0 THEN a + nd ELSE a          \* 0-based axis
NormAxes(ax, nd) == [i \in 1..Len(ax) |-> NormAxis(ax[i], nd)]

\* ---------------------------------------------------------------- broadcasting
PadLeft(sh, n) == [i \in 1..n |-> IF i <= n - Len(sh) THEN 1 ELSE sh[i - (n - Len(sh))]]
BCompat(s1, s2) == LET n == MaxN(Len(s1), Len(s2)) a == PadLeft(s1, n) b == PadLeft(s2, n)
                   IN \A i \in 1..n : a[i] = b[i] \/ a[i] = 1 \/ b[i] = 1
BShape(s1, s2) == LET n == MaxN(Len(s1), Len(s2)) a == PadLeft(s1, n) b == PadLeft(s2, n)
                  IN [i \in 1..n |-> IF a[i] = 1 THEN b[i] ELSE a[i]]
BShape3(s1, s2, s3) == BShape(BShape(s1, s2), s3)
\* can src broadcast TO out (one-directional)?
BTo(src, out) == Len(src) <= Len(out) /\
                 LET a == PadLeft(src, Len(out)) IN \A i \in 1..Len(out) : a[i] = out[i] \/ a[i] = 1
\* gather that broadcasts an array of shape src to shape out
BGather(src, out) ==
  LET n == Len(out) a == PadLeft(src, n) sa == Strides(a)
  IN [p \in 1..Size(out) |->
        LET idx == Unravel(p, out)
        IN 1 + SeqSum([i \in 1..n |-> (IF a[i] = 1 THEN 0 ELSE idx[i]) * sa[i]])]

Gather(xs, g) == TLCEval([k \in 1..Len(g) |-> xs[g[k]]])

\* ---------------------------------------------------------------- reshape-like (identity gathers)
\* resolve one -1 in a requested shape
ResolveShape(newsh, n) ==
  IF \E i \in 1..Len(newsh) : newsh[i] = -1
  THEN LET known == SeqProd([i \in 1..Len(newsh) |-> IF newsh[i] = -1 THEN 1 ELSE newsh[i]])
       IN [i \in 1..Len(newsh) |-> IF newsh[i] = -1 THEN (IF known = 0 THEN 0 ELSE n \div known) ELSE newsh[i]]
  ELSE newsh
ReshapeOK(sh, newsh) ==
  /\ Cardinality({i \in 1..Len(newsh) : newsh[i] = -1}) <= 1
  /\ \A i \in 1..Len(newsh) : newsh[i] >= -1
  /\ Size(ResolveShape(newsh, Size(sh))) = Size(sh)

\* ---------------------------------------------------------------- axis permutations
\* out axis i takes source axis perm[i] (0-based values)
PermShape(sh, perm) == [i \in 1..Len(sh) |-> sh[perm[i] + 1]]
PermGather(sh, perm) ==
  LET osh == PermShape(sh, perm) n == Len(sh) st == Strides(sh)
  IN [p \in 1..Size(osh) |->
        LET oi == Unravel(p, osh)
        IN 1 + SeqSum([i \in 1..n |-> oi[i] * st[perm[i] + 1]])]
IsPerm(perm, n) == Len(perm) = n /\ {perm[i] : i \in 1..n} = 0..(n - 1)
ReversePerm(n) == [i \in 1..n |-> n - i]
SwapPerm(n, a, b) == [i \in 1..n |-> IF i - 1 = a THEN b ELSE IF i - 1 = b THEN a ELSE i - 1]
\* numpy.moveaxis(source axes src -> destination axes dst), 0-based, already normalised
MovePerm(n, src, dst) ==
  LET rest == SelectIdx(n, LAMBDA i : (i - 1) \notin RangeOf(src))      \* 1-based axes not moved, in order
      free == SelectIdx(n, LAMBDA i : (i - 1) \notin RangeOf(dst))      \* 1-based destinations left over
  IN [i \in 1..n |->
        IF \E k \in 1..Len(dst) : dst[k] = i - 1
        THEN src[CHOOSE k \in 1..Len(dst) : dst[k] = i - 1]
        ELSE rest[CHOOSE k \in 1..Len(free) : free[k] = i] - 1]

\* ---------------------------------------------------------------- squeeze / expand_dims
SqueezeShape(sh, axes) == \* axes: set of 0-based normalised axes; {} with all = TRUE squeezes every 1
  LET keep == SelectIdx(Len(sh), LAMBDA i : (i - 1) \notin axes) IN [k \in 1..Len(keep) |-> sh[keep[k]]]
AllOnes(sh) == {i - 1 : i \in {j \in 1..Len(sh) : sh[j] = 1}}
ExpandShape(sh, axes) == \* axes: set of 0-based positions in the RESULT
  LET n == Len(sh) + Cardinality(axes)
      RECURSIVE F(_, _)
      F(i, j) == IF i > n THEN <<>> ELSE IF (i - 1) \in axes THEN <<1>> \o F(i + 1, j) ELSE <<sh[j]>> \o F(i + 1, j + 1)
  IN F(1, 1)

\* ---------------------------------------------------------------- python slices
\* A slice item carries lo/hi/st and flags nlo/nhi (TRUE = None).  Mirrors PySlice_AdjustIndices.
SliceStep(s) == IF s.nst THEN 1 ELSE s.st
SliceStart(s, n) ==
  LET st == SliceStep(s) IN
  IF s.nlo THEN (IF st < 0 THEN n - 1 ELSE 0)
  ELSE IF s.lo < 0 THEN (IF s.lo + n < 0 THEN (IF st < 0 THEN -1 ELSE 0) ELSE s.lo + n)
  ELSE IF s.lo >= n THEN (IF st < 0 THEN n - 1 ELSE n) ELSE s.lo
SliceStop(s, n) ==
  LET st == SliceStep(s) IN
  IF s.nhi THEN (IF st < 0 THEN -1 ELSE n)
  ELSE IF s.hi < 0 THEN (IF s.hi + n < 0 THEN (IF st < 0 THEN -1 ELSE 0) ELSE s.hi + n)
  ELSE IF s.hi >= n THEN (IF st < 0 THEN n - 1 ELSE n) ELSE s.hi
SliceLen(s, n) ==
  LET st == SliceStep(s) lo == SliceStart(s, n) hi == SliceStop(s, n) IN
  IF st > 0 THEN (IF hi > lo THEN (hi - lo + st - 1) \div st ELSE 0)
  ELSE (IF lo > hi THEN (lo - hi + (-st) - 1) \div (-st) ELSE 0)
SliceIdx(s, n) == LET st == SliceStep(s) lo == SliceStart(s, n) IN [k \in 1..SliceLen(s, n) |-> lo + (k - 1) * st]
FullSlice == [t |-> "slice", nlo |-> TRUE, nhi |-> TRUE, nst |-> TRUE, lo |-> 0, hi |-> 0, st |-> 1]

\* ---------------------------------------------------------------- basic indexing
\* index = sequence of items with field t in {"int","slice","new","ell"}
IsBasicItem(it) == it.t \in {"int", "slice", "new", "ell"}
IsBasic(ix) == \A i \in 1..Len(ix) : IsBasicItem(ix[i])
Consumes(it) == IF it.t \in {"int", "slice"} THEN 1 ELSE 0
NConsumed(ix) == SeqSum([i \in 1..Len(ix) |-> Consumes(ix[i])])
NEll(ix) == Cardinality({i \in 1..Len(ix) : ix[i].t = "ell"})
\* expand the ellipsis (or append one) into full slices
ExpandEll(ix, nd) ==
  LET miss == nd - NConsumed(ix)
      fill == [k \in 1..miss |-> FullSlice]
      RECURSIVE F(_)
      F(i) == IF i > Len(ix) THEN <<>> ELSE (IF ix[i].t = "ell" THEN fill ELSE <<ix[i]>>) \o F(i + 1)
  IN IF NEll(ix) = 0 THEN ix \o fill ELSE F(1)
\* source axis (1-based) consumed by item i of an expanded index, 0 for newaxis
ItemAxis(ex, i) == IF ex[i].t = "new" THEN 0 ELSE SeqSum([j \in 1..i |-> Consumes(ex[j])])
BasicOK(ix, sh) ==
  /\ IsBasic(ix) /\ NEll(ix) <= 1 /\ NConsumed(ix) <= Len(sh)
  /\ LET ex == ExpandEll(ix, Len(sh)) IN
     /\ (\A i \in 1..Len(ex) : ex[i].t = "int" =>
           (LET n == sh[ItemAxis(ex, i)] IN ex[i].i >= -n /\ ex[i].i < n))
     /\ (\A i \in 1..Len(ex) : (ex[i].t = "slice" /\ ~ex[i].nst) => ex[i].st # 0)
\* retained output dims: sequence of [ax (0=new), ix (source indices along ax)]
BasicDims(ix, sh) ==
  LET ex == ExpandEll(ix, Len(sh))
      RECURSIVE F(_)
      F(i) == IF i > Len(ex) THEN <<>>
              ELSE (CASE ex[i].t = "int"   -> <<>>
                      [] ex[i].t = "new"   -> <<[ax |-> 0, ix |-> <<0>>]>>
                      [] ex[i].t = "slice" -> <<[ax |-> ItemAxis(ex, i), ix |-> SliceIdx(ex[i], sh[ItemAxis(ex, i)])]>>) \o F(i + 1)
  IN F(1)
BasicFixed(ix, sh) == \* function: source axis -> fixed index (for ints), -1 otherwise
  LET ex == ExpandEll(ix, Len(sh))
  IN [a \in 1..Len(sh) |->
        IF \E i \in 1..Len(ex) : ex[i].t = "int" /\ ItemAxis(ex, i) = a
        THEN LET jj == CHOOSE j \in 1..Len(ex) : ex[j].t = "int" /\ ItemAxis(ex, j) = a
             IN IF ex[jj].i < 0 THEN ex[jj].i + sh[a] ELSE ex[jj].i
        ELSE -1]
BasicShape(ix, sh) == LET d == BasicDims(ix, sh) IN [k \in 1..Len(d) |-> Len(d[k].ix)]
BasicGather(ix, sh) ==
  LET d == BasicDims(ix, sh) fx == BasicFixed(ix, sh) osh == [k \in 1..Len(d) |-> Len(d[k].ix)]
      st == Strides(sh)
      \* for each source axis: which output dim (0 if fixed)
      od == [a \in 1..Len(sh) |-> IF fx[a] >= 0 THEN 0 ELSE CHOOSE k \in 1..Len(d) : d[k].ax = a]
  IN [p \in 1..Size(osh) |->
        LET oi == Unravel(p, osh)
        IN 1 + SeqSum([a \in 1..Len(sh) |-> (IF fx[a] >= 0 THEN fx[a] ELSE d[od[a]].ix[oi[od[a]] + 1]) * st[a]])]
\* does a basic index select a single element with only ints (NumPy returns a scalar copy, not a view)
AllInts(ix, sh) == IsBasic(ix) /\ NEll(ix) = 0 /\ Len(ix) = Len(sh) /\ \A i \in 1..Len(ix) : ix[i].t = "int"

\* ---------------------------------------------------------------- advanced indexing (restricted forms)
\* form "adv":  k integer arrays (each [sh, v]) indexing the first k axes, broadcast together
\* form "mask": one boolean array [sh, v] over the first m axes
AdvOK(arrs, sh) ==
  /\ Len(arrs) >= 1 /\ Len(arrs) <= Len(sh)
  /\ \A i, j \in 1..Len(arrs) : BCompat(arrs[i].sh, arrs[j].sh)
  /\ \A i \in 1..Len(arrs) : \A k \in 1..Len(arrs[i].v) : arrs[i].v[k] >= -sh[i] /\ arrs[i].v[k] < sh[i]
AdvBShape(arrs) == LET RECURSIVE F(_)
                       F(i) == IF i > Len(arrs) THEN <<>> ELSE BShape(arrs[i].sh, F(i + 1))
                   IN F(1)
AdvShape(arrs, sh) == AdvBShape(arrs) \o SubSeq(sh, Len(arrs) + 1, Len(sh))
AdvGather(arrs, sh) ==
  LET k == Len(arrs) bsh == AdvBShape(arrs) osh == AdvShape(arrs, sh) st == Strides(sh)
      bg == [i \in 1..k |-> BGather(arrs[i].sh, bsh)]
      nb == Len(bsh)
  IN [p \in 1..Size(osh) |->
        LET oi == Unravel(p, osh)
            bp == Ravel(SubSeq(oi, 1, nb), bsh)
            norm(i) == LET x == arrs[i].v[bg[i][bp]] IN IF x < 0 THEN x + sh[i] ELSE x
        IN 1 + SeqSum([a \in 1..Len(sh) |-> (IF a <= k THEN norm(a) ELSE oi[nb + (a - k)]) * st[a]])]
MaskOK(m, sh) == Len(m.sh) <= Len(sh) /\ \A i \in 1..Len(m.sh) : m.sh[i] = sh[i]
MaskTrue(m) == SelectIdx(Len(m.v), LAMBDA i : m.v[i])
MaskShape(m, sh) == <<Len(MaskTrue(m))>> \o SubSeq(sh, Len(m.sh) + 1, Len(sh))
MaskGather(m, sh) ==
  LET tr == MaskTrue(m) rest == SubSeq(sh, Len(m.sh) + 1, Len(sh)) rs == Size(rest)
  IN [p \in 1..(Len(tr) * rs) |-> (tr[((p - 1) \div rs) + 1] - 1) * rs + ((p - 1) % rs) + 1]

\* unified entry points:  index is a record [t |-> "basic", items] | [t |-> "adv", arrs] | [t |-> "mask", m]
IndexOK(ix, sh) == CASE ix.t = "basic" -> BasicOK(ix.items, sh)
                     [] ix.t = "adv"   -> AdvOK(ix.arrs, sh)
                     [] ix.t = "mask"  -> MaskOK(ix.m, sh)
IndexShape(ix, sh) == CASE ix.t = "basic" -> BasicShape(ix.items, sh)
                        [] ix.t = "adv"   -> AdvShape(ix.arrs, sh)
                        [] ix.t = "mask"  -> MaskShape(ix.m, sh)
IndexGather(ix, sh) == CASE ix.t = "basic" -> BasicGather(ix.items, sh)
                         [] ix.t = "adv"   -> AdvGather(ix.arrs, sh)
                         [] ix.t = "mask"  -> MaskGather(ix.m, sh)

\* ---------------------------------------------------------------- reductions
\* axes: sequence of 0-based normalised axes (distinct).  Groups[k] = source positions reduced into output k
ReduceKeep(sh, axes) == SelectIdx(Len(sh), LAMBDA i : (i - 1) \notin RangeOf(axes))   \* 1-based kept axes
ReduceShape(sh, axes, keepdims) ==
  IF keepdims THEN [i \in 1..Len(sh) |-> IF (i - 1) \in RangeOf(axes) THEN 1 ELSE sh[i]]
  ELSE LET kp == ReduceKeep(sh, axes) IN [k \in 1..Len(kp) |-> sh[kp[k]]]
ReduceGroups(sh, axes) ==
  LET kp == ReduceKeep(sh, axes)
      rd == SelectIdx(Len(sh), LAMBDA i : (i - 1) \in RangeOf(axes))
      ksh == [k \in 1..Len(kp) |-> sh[kp[k]]]
      rsh == [k \in 1..Len(rd) |-> sh[rd[k]]]
      st == Strides(sh)
  IN [p \in 1..Size(ksh) |->
        LET ki == Unravel(p, ksh) IN
        [q \in 1..Size(rsh) |->
           LET ri == Unravel(q, rsh) IN
           1 + SeqSum([k \in 1..Len(kp) |-> ki[k] * st[kp[k]]]) + SeqSum([k \in 1..Len(rd) |-> ri[k] * st[rd[k]]])]]
AllAxes(sh) == [i \in 1..Len(sh) |-> i - 1]

\* ---------------------------------------------------------------- matmul (NumPy semantics incl. 1-D promotion and batch broadcasting)
MatmulOK(sa, sb) ==
  /\ Len(sa) >= 1 /\ Len(sb) >= 1
  /\ LET a2 == IF Len(sa) = 1 THEN <<1, sa[1]>> ELSE sa
         b2 == IF Len(sb) = 1 THEN <<sb[1], 1>> ELSE sb
     IN a2[Len(a2)] = b2[Len(b2) - 1] /\ BCompat(SubSeq(a2, 1, Len(a2) - 2), SubSeq(b2, 1, Len(b2) - 2))
MatmulShape(sa, sb) ==
  LET a2 == IF Len(sa) = 1 THEN <<1, sa[1]>> ELSE sa
      b2 == IF Len(sb) = 1 THEN <<sb[1], 1>> ELSE sb
      bat == BShape(SubSeq(a2, 1, Len(a2) - 2), SubSeq(b2, 1, Len(b2) - 2))
  IN bat \o (IF Len(sa) = 1 THEN <<>> ELSE <<a2[Len(a2) - 1]>>) \o (IF Len(sb) = 1 THEN <<>> ELSE <<b2[Len(b2)]>>)
\* Terms[k] = sequence of <<pa, pb>> pairs whose products are summed into output k
MatmulTerms(sa, sb) ==
  LET a2 == IF Len(sa) = 1 THEN <<1, sa[1]>> ELSE sa
      b2 == IF Len(sb) = 1 THEN <<sb[1], 1>> ELSE sb
      na == Len(a2) nb == Len(b2)
      ba == SubSeq(a2, 1, na - 2) bb == SubSeq(b2, 1, nb - 2)
      bat == BShape(ba, bb)
      M == a2[na - 1] K == a2[na] N == b2[nb]
      full == bat \o <<M, N>>
      ga == BGather(ba, bat) gb == BGather(bb, bat)
  IN [p \in 1..Size(full) |->
        LET oi == Unravel(p, full)
            bp == Ravel(SubSeq(oi, 1, Len(bat)), bat)
            m == oi[Len(bat) + 1] n == oi[Len(bat) + 2]
        IN [k \in 1..K |-> << (ga[bp] - 1) * M * K + m * K + (k - 1) + 1,
                              (gb[bp] - 1) * K * N + (k - 1) * N + n + 1 >>]]

\* ---------------------------------------------------------------- joining / tiling (gathers from several sources)
\* concatenate along axis ax (0-based): result positions map to <<source number, source position>>
ConcatOK(shs, ax) == Len(shs) >= 1 /\ ax >= 0 /\ ax < Len(shs[1]) /\
                     \A i \in 1..Len(shs) : Len(shs[i]) = Len(shs[1]) /\
                        \A d \in 1..Len(shs[1]) : d # ax + 1 => shs[i][d] = shs[1][d]
ConcatShape(shs, ax) == [d \in 1..Len(shs[1]) |-> IF d = ax + 1 THEN SeqSum([i \in 1..Len(shs) |-> shs[i][d]]) ELSE shs[1][d]]
ConcatGather(shs, ax) ==
  LET osh == ConcatShape(shs, ax)
      offs == [i \in 1..Len(shs) |-> SeqSum([j \in 1..(i - 1) |-> shs[j][ax + 1]])]
  IN [p \in 1..Size(osh) |->
        LET oi == Unravel(p, osh)
            s == CHOOSE i \in 1..Len(shs) : oi[ax + 1] >= offs[i] /\ oi[ax + 1] < offs[i] + shs[i][ax + 1]
        IN <<s, Ravel([d \in 1..Len(osh) |-> IF d = ax + 1 THEN oi[d] - offs[s] ELSE oi[d]], shs[s])>>]
\* repeat each element r times along axis ax
RepeatShape(sh, r, ax) == [d \in 1..Len(sh) |-> IF d = ax + 1 THEN sh[d] * r ELSE sh[d]]
RepeatGather(sh, r, ax) ==
  LET osh == RepeatShape(sh, r, ax)
  IN [p \in 1..Size(osh) |-> LET oi == Unravel(p, osh)
                             IN Ravel([d \in 1..Len(sh) |-> IF d = ax + 1 THEN oi[d] \div r ELSE oi[d]], sh)]
\* roll by k along axis ax
RollGather(sh, k, ax) ==
  [p \in 1..Size(sh) |-> LET oi == Unravel(p, sh)
                         IN Ravel([d \in 1..Len(sh) |-> IF d = ax + 1 THEN (oi[d] - k) % sh[d] ELSE oi[d]], sh)]
\* diagonal of a square 2-D array (einsum "ii->i")
DiagGather(sh) == [k \in 1..sh[1] |-> (k - 1) * sh[2] + k]

\* ---------------------------------------------------------------- memory layout of a fresh elementwise result
\* NumPy allocates the output of a ufunc in "K" order: the axis order of the operands' memory is kept.  This is the
\* insertion sort of nditer (npyiter_find_best_axis_ordering): iterator position 1 is the innermost (fastest) axis,
\* initially the last array axis; an axis moves inwards past another one only if every operand that has non-zero
\* strides on both says so (in a conflict C order wins).
\* opst : sequence (one per array operand) of per-axis element strides aligned to the result's n axes (0 = broadcast)
AbsN(x) == IF x < 0 THEN -x ELSE x
KOrderPerm(n, opst) ==
  LET \* decide, for iterator axes holding array axes j0 (outer candidate) and j1 (the one further in)
      Cmp(j0, j1) ==    \* "swap" | "stay" | "ambig"
        LET rel == {i \in 1..Len(opst) : opst[i][j0] # 0 /\ opst[i][j1] # 0} IN
        IF rel = {} THEN "ambig"
        ELSE IF \A i \in rel : AbsN(opst[i][j1]) > AbsN(opst[i][j0]) THEN "swap" ELSE "stay"
      \* position at which perm[i0] must be inserted, scanning i1 = i0-1 down to 1
      RECURSIVE Pos(_, _, _, _)
      Pos(perm, i0, i1, ipos) ==
        IF i1 < 1 THEN ipos
        ELSE LET c == Cmp(perm[i0], perm[i1]) IN
             IF c = "ambig" THEN Pos(perm, i0, i1 - 1, ipos)
             ELSE IF c = "swap" THEN Pos(perm, i0, i1 - 1, i1)
             ELSE ipos
      Insert(perm, i0, ipos) ==
        [k \in 1..n |-> IF k < ipos \/ k > i0 THEN perm[k] ELSE IF k = ipos THEN perm[i0] ELSE perm[k - 1]]
      RECURSIVE Sort(_, _)
      Sort(perm, i0) == IF i0 > n THEN perm
                        ELSE LET ip == Pos(perm, i0, i0 - 1, i0) IN Sort(IF ip = i0 THEN perm ELSE Insert(perm, i0, ip), i0 + 1)
  IN Sort([i \in 1..n |-> n + 1 - i], 2)
\* element strides of the freshly allocated output: iterator position 1 is contiguous
KOrderStrides(sh, perm) ==
  LET n == Len(sh)
      posOf(a) == CHOOSE k \in 1..n : perm[k] = a
      RECURSIVE P(_)
      P(k) == IF k <= 1 THEN 1 ELSE sh[perm[k - 1]] * P(k - 1)
  IN [a \in 1..n |-> P(posOf(a))]
\* per-axis element strides of an operand with index map imap and shape osh, aligned (right) to n result axes
AlignedStrides(imap, osh, n) ==
  LET m == Len(osh) cst == Strides(osh) IN
  [a \in 1..n |-> IF a <= n - m THEN 0
                   ELSE LET j == a - (n - m) IN IF osh[j] < 2 THEN 0 ELSE imap[1 + cst[j]] - imap[1]]

\* ---------------------------------------------------------------- strided-view test (NumPy returns a view of a
\* reshape iff the result can be described by strides).  imap = buffer cell of every element, sh = its shape.
Affine(imap, sh) ==
  Size(sh) <= 1 \/
  LET st == Strides(sh)
      step == [i \in 1..Len(sh) |-> IF sh[i] >= 2 THEN imap[1 + st[i]] - imap[1] ELSE 0]
  IN \A p \in 1..Size(sh) : LET oi == Unravel(p, sh) IN imap[p] = imap[1] + SeqSum([i \in 1..Len(sh) |-> oi[i] * step[i]])
=============================================================================

------------------------------- MODULE Rat -------------------------------
(* Exact rational arithmetic for the value-carrying specifications.        *)
(* A rational is a normalised pair <<n, d>> with d > 0 and gcd(|n|,d) = 1.  *)
(* TLC integers are 32 bit and TLC raises on overflow, so the generators    *)
(* keep numerators/denominators small (DESIGN 3.3); InRange lets a spec     *)
(* classify a value as out_of_model instead of letting TLC abort.           *)
EXTENDS Integers, Sequences

AbsI(x) == IF x < 0 THEN -x ELSE x
MaxI(a, b) == IF a >= b THEN a ELSE b
MinI(a, b) == IF a <= b THEN a ELSE b

RECURSIVE GcdI(_, _)
GcdI(a, b) == IF b = 0 THEN a ELSE GcdI(b, a % b)

\* Out-of-range marker.  TLC integers are 32 bit and TLC aborts on overflow, so every product is guarded: operands
\* beyond Lim (or an OOR operand) give OOR, which propagates; a specification state that ever held an OOR value is
\* classified out_of_model by the trace validator instead of letting TLC abort the whole batch.
OOR == <<0, 0>>
IsOOR(a) == a[2] = 0
Lim == 30000
Big(a) == a[2] = 0 \/ AbsI(a[1]) > Lim \/ a[2] > Lim

RNorm(n, d) ==
  IF d = 0 THEN OOR ELSE
  IF n = 0 THEN <<0, 1>>
  ELSE LET g == GcdI(AbsI(n), AbsI(d))
           s == IF d < 0 THEN -1 ELSE 1
       IN <<(s * n) \div g, (s * d) \div g>>

R(n)        == <<n, 1>>
RZero       == <<0, 1>>
ROne        == <<1, 1>>
RAdd(a, b)  == IF Big(a) \/ Big(b) THEN OOR
               ELSE IF a[2] = 1 /\ b[2] = 1 THEN <<a[1] + b[1], 1>>
               ELSE RNorm(a[1] * b[2] + b[1] * a[2], a[2] * b[2])
RNeg(a)     == <<-a[1], a[2]>>
RSub(a, b)  == RAdd(a, RNeg(b))
RMul(a, b)  == IF Big(a) \/ Big(b) THEN OOR
               ELSE IF a[2] = 1 /\ b[2] = 1 THEN <<a[1] * b[1], 1>>
               ELSE RNorm(a[1] * b[1], a[2] * b[2])
RInv(a)     == IF a[1] = 0 THEN OOR ELSE IF a[1] < 0 THEN <<-a[2], -a[1]>> ELSE <<a[2], a[1]>>
RDiv(a, b)  == RMul(a, RInv(b))
RLt(a, b)   == IF Big(a) \/ Big(b) THEN FALSE ELSE a[1] * b[2] < b[1] * a[2]
RLe(a, b)   == IF Big(a) \/ Big(b) THEN FALSE ELSE a[1] * b[2] <= b[1] * a[2]
RIsZero(a)  == a[1] = 0
RSign(a)    == IF a[1] > 0 THEN 1 ELSE IF a[1] < 0 THEN -1 ELSE 0
RAbs(a)     == <<AbsI(a[1]), a[2]>>
RMax(a, b)  == IF RLt(a, b) THEN b ELSE a
RMin(a, b)  == IF RLt(b, a) THEN b ELSE a
RIsInt(a)   == a[2] = 1

RECURSIVE RPowNat(_, _)
RPowNat(a, k) == IF k = 0 THEN ROne ELSE RMul(a, RPowNat(a, k - 1))
RPowInt(a, k) == IF k >= 0 THEN RPowNat(a, k) ELSE RInv(RPowNat(a, -k))

Bound == 100000000
InRange(a) == AbsI(a[1]) < Bound /\ a[2] < Bound
=============================================================================

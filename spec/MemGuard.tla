------------------------------ MODULE MemGuard ------------------------------
(* MECHANISM LEVEL: MyGrad's memory guard (C08).                              *)
(*                                                                            *)
(* Transcribed from mygrad/_utils/lock_management.py and Tensor._op:          *)
(*   lock_arr_writeability        (incl. the "natively read-only" early exit) *)
(*   unique_arrs_and_bases        (bases first)                               *)
(*   _release_lock_on_arr_writeability (count==1 branch, views waiting for    *)
(*        their base, the tracker-empty shortcut, the unlock loop)            *)
(*   _op: lock inputs -> forward (may fail: release) -> lock output ->        *)
(*        weakref.finalize(op, release, refs)                                 *)
(* together with the part of CPython that decides WHEN a finaliser runs:      *)
(* reference counting over user references, tensor -> data / creator / base,  *)
(* op -> input tensors, view array -> base array.  An operation dies - and    *)
(* its locks are released - exactly when nothing refers to it any more;       *)
(* backward()/clear_graph() drop the creators upstream of a tensor.           *)
(* A tensor's creator is released before its data (insertion order of the     *)
(* instance dict), so the output array is still alive when the finaliser runs.*)
(*                                                                            *)
(* Every step is a pure operator on the state record, so the exhaustive       *)
(* model, the behaviour emission and trace validation share one definition.   *)
EXTENDS Integers, Sequences, FiniteSets, TLC, Json, SequencesExt

CONSTANTS NA,        \* array objects available
          NT,        \* tensor objects available
          NO,        \* operation objects available
          MaxLen,    \* events per emitted behaviour
          EmitHist,  \* TRUE: carry the history and emit maximal behaviours as JSON
          Alphabet   \* subset of statement kinds explored

Arr == 1..NA
Ten == 1..NT
Ops == 1..NO

NoArr == [alive |-> FALSE, owner |-> 0, w |-> TRUE, w0 |-> TRUE, held |-> FALSE, touched |-> FALSE]
\* reg : the tensor is listed among its parent's registered views (`_view_children`); a clear_graph empties that list
NoTen == [alive |-> FALSE, arr |-> 0, creator |-> 0, base |-> 0, held |-> FALSE, reg |-> FALSE]
\* unreg : input tensors whose consumer list (`_ops`) no longer names this operation (a clear_graph emptied it)
NoOp  == [alive |-> FALSE, vars |-> <<>>, out |-> 0, refs |-> <<>>, guarded |-> FALSE, unreg |-> {}]

InitS == [arr |-> [a \in Arr |-> NoArr], ten |-> [t \in Ten |-> NoTen], op |-> [o \in Ops |-> NoOp],
          cnt |-> [a \in Arr |-> 0], trk |-> {}, wait |-> [a \in Arr |-> {}], guard |-> TRUE,
          kf9 |-> FALSE]    \* KNOWN FINDING F-C09-1 has been triggered: an in-place update missed a consumer

VARIABLES s, hist
vars == <<s, hist>>

\* ------------------------------------------------------------------ lock_management.py
Tracked(x, a) == a \in x.trk /\ x.arr[a].alive          \* array_is_tracked: entry present and weakref alive

Lock(x, a, force) ==                                    \* lock_arr_writeability
  IF ~Tracked(x, a) THEN
     IF ~force /\ ~x.arr[a].w /\ (x.arr[a].owner = 0 \/ ~Tracked(x, x.arr[a].owner))
     THEN x                                             \* natively read-only: leave it alone, untracked
     ELSE [x EXCEPT !.trk = @ \cup {a}, !.cnt[a] = 1, !.arr[a].w = FALSE]
  ELSE [x EXCEPT !.cnt[a] = @ + 1, !.arr[a].w = FALSE]

RECURSIVE UnlockWaiting(_, _, _)
UnlockWaiting(x, b, vs) ==                               \* the loop over _views_waiting_for_unlock[b]
  IF vs = {} THEN x ELSE
  LET v == CHOOSE y \in vs : TRUE
      rest == vs \ {v} IN
  IF x.cnt[v] > 0 THEN UnlockWaiting(x, b, rest)         \* view involved in a new op: keeps waiting
  ELSE LET x1 == [x EXCEPT !.wait[b] = @ \ {v}] IN
       IF v \notin x1.trk THEN UnlockWaiting(x1, b, rest)                     \* KeyError branch
       ELSE LET x2 == [x1 EXCEPT !.trk = @ \ {v}] IN
            IF ~x2.arr[v].alive THEN UnlockWaiting(x2, b, rest)               \* dead weakref
            ELSE UnlockWaiting([x2 EXCEPT !.arr[v].w = TRUE], b, rest)

Release(x, a) ==                                         \* _release_lock_on_arr_writeability
  LET n == x.cnt[a]
      x1 == IF n = 1 THEN
               LET t == [x EXCEPT !.cnt[a] = 0] IN
               IF t.arr[a].owner # 0 /\ ~t.arr[t.arr[a].owner].w
               THEN [t EXCEPT !.wait[t.arr[a].owner] = @ \cup {a}]            \* view waits for its base
               ELSE LET u == [t EXCEPT !.arr[a].w = TRUE, !.trk = @ \ {a}] IN
                    IF {y \in u.trk : TRUE} = {} THEN [u EXCEPT !.wait = [y \in Arr |-> {}]] ELSE u
            ELSE IF n > 0 THEN [x EXCEPT !.cnt[a] = n - 1] ELSE x
  IN IF x1.arr[a].owner = 0 /\ x1.arr[a].w /\ x1.wait[a] # {}
     THEN UnlockWaiting(x1, a, x1.wait[a]) ELSE x1

RECURSIVE ReleaseAll(_, _)
ReleaseAll(x, refs) == IF refs = <<>> THEN x          \* release_writeability_lock_on_op over the LIVE weak refs
   ELSE ReleaseAll(IF x.arr[Head(refs)].alive THEN Release(x, Head(refs)) ELSE x, Tail(refs))
RECURSIVE LockAll(_, _)
LockAll(x, refs) == IF refs = <<>> THEN x
   ELSE LockAll([Lock(x, Head(refs), FALSE) EXCEPT !.arr[Head(refs)].touched = TRUE], Tail(refs))

\* unique_arrs_and_bases over a sequence of tensors: bases first, no duplicates
RECURSIVE UAB(_, _, _)
UAB(x, ts, seen) ==
  IF ts = <<>> THEN <<>> ELSE
  LET a == x.ten[Head(ts)].arr IN
  IF a \in seen THEN UAB(x, Tail(ts), seen)
  ELSE LET b == x.arr[a].owner
           pre == IF b # 0 /\ b \notin seen THEN <<b>> ELSE <<>>
       IN pre \o <<a>> \o UAB(x, Tail(ts), seen \cup {a} \cup (IF b # 0 THEN {b} ELSE {}))

\* ------------------------------------------------------------------ reference counting (CPython)
FreeA(x) == {a \in Arr : ~x.arr[a].alive /\ x.cnt[a] = 0 /\ a \notin x.trk /\ \A b \in Arr : a \notin x.wait[b]}
FreeT(x) == {t \in Ten : ~x.ten[t].alive}
FreeO(x) == {o \in Ops : ~x.op[o].alive}
Pick(S) == CHOOSE y \in S : \A z \in S : y <= z          \* lowest free id: no permutations of names

TenReferenced(x, t) == \/ x.ten[t].held
                       \/ \E o \in Ops : x.op[o].alive /\ \E i \in 1..Len(x.op[o].vars) : x.op[o].vars[i] = t
                       \/ \E u \in Ten : x.ten[u].alive /\ x.ten[u].base = t
OpReferenced(x, o)  == \E t \in Ten : x.ten[t].alive /\ x.ten[t].creator = o
ArrReferenced(x, a) == \/ x.arr[a].held
                       \/ \E t \in Ten : x.ten[t].alive /\ x.ten[t].arr = a
                       \/ \E b \in Arr : x.arr[b].alive /\ x.arr[b].owner = a

\* weakref.finalize callback of an operation: release the locks of the arrays it recorded
Finalize(x, o) == ReleaseAll([x EXCEPT !.op[o] = NoOp], x.op[o].refs)

\* Collect garbage by reference counting until nothing more dies.  Order inside one tensor's death:
\* creator first (finaliser may run, output array still alive), then data.
RECURSIVE Collect(_)
Collect(x) ==
  LET deadT == {t \in Ten : x.ten[t].alive /\ ~TenReferenced(x, t)} IN
  IF deadT # {} THEN
     LET t == Pick(deadT)
         o == x.ten[t].creator
         \* drop the creator reference; the array stays alive through this pseudo-hold until the op is finalised
         x1 == [x EXCEPT !.ten[t].creator = 0, !.ten[t].held = TRUE]
         x2 == IF o # 0 /\ ~OpReferenced(x1, o) THEN Finalize(x1, o) ELSE x1
     IN Collect([x2 EXCEPT !.ten[t] = NoTen,
                          !.op = [o2 \in Ops |-> IF @[o2].alive THEN [@[o2] EXCEPT !.unreg = @ \ {t}] ELSE @[o2]]])
  ELSE
  LET deadO == {o \in Ops : x.op[o].alive /\ ~OpReferenced(x, o)} IN
  IF deadO # {} THEN Collect(Finalize(x, Pick(deadO)))
  ELSE
  LET deadA == {a \in Arr : x.arr[a].alive /\ ~ArrReferenced(x, a)} IN
  IF deadA # {} THEN Collect([x EXCEPT !.arr[Pick(deadA)].alive = FALSE])
  ELSE x

\* ------------------------------------------------------------------ statements
\* user creates an owning array (optionally natively read-only)
NewArr(x, w) == LET a == Pick(FreeA(x)) IN
  [x EXCEPT !.arr[a] = [alive |-> TRUE, owner |-> 0, w |-> w, w0 |-> w, held |-> TRUE, touched |-> FALSE]]
\* user takes a NumPy view of array b (the view inherits b's CURRENT flag; its base is b's owner)
NpView(x, b) == LET a == Pick(FreeA(x))
                    own == IF x.arr[b].owner = 0 THEN b ELSE x.arr[b].owner IN
  \* original flag of the view: what it would be had MyGrad not locked its source (C08: "a view taken from an
  \* array while it was locked counts as having its owner's original flag")
  [x EXCEPT !.arr[a] = [alive |-> TRUE, owner |-> own, w |-> x.arr[b].w, w0 |-> x.arr[b].w \/ x.arr[b].w0,
                        held |-> TRUE, touched |-> FALSE]]
\* user makes an untouched array of theirs read-only
Freeze(x, a) == [x EXCEPT !.arr[a].w = FALSE, !.arr[a].w0 = FALSE]
\* mg.tensor(a, copy=False): a tensor over the user's array
Wrap(x, a) == LET t == Pick(FreeT(x)) IN
  [x EXCEPT !.ten[t] = [alive |-> TRUE, arr |-> a, creator |-> 0, base |-> 0, held |-> TRUE, reg |-> FALSE]]

\* operands: <<"t", tensor>> or <<"a", array>> (a bare array is wrapped in a constant tensor owned by the op)
RECURSIVE WrapOperands(_, _, _)
WrapOperands(x, opnds, acc) ==
  IF opnds = <<>> THEN [x |-> x, ts |-> acc] ELSE
  LET h == Head(opnds) IN
  IF h[1] = "t" THEN WrapOperands(x, Tail(opnds), Append(acc, h[2]))
  ELSE LET t == Pick(FreeT(x))
           x1 == [x EXCEPT !.ten[t] = [alive |-> TRUE, arr |-> h[2], creator |-> 0, base |-> 0, held |-> FALSE, reg |-> FALSE]]
       IN WrapOperands(x1, Tail(opnds), Append(acc, t))

\* an input that is a disconnected view (its graph was cleared, its base lingers) forgets its base when it is used
DetachStale(x, ts) ==
  [x EXCEPT !.ten = [u \in Ten |-> IF (\E i \in 1..Len(ts) : ts[i] = u) /\ @[u].alive /\ @[u].base # 0 /\ @[u].creator = 0
                                   THEN [@[u] EXCEPT !.base = 0, !.reg = FALSE] ELSE @[u]]]
\* a non-view operation (Tensor._op): result owns a fresh array
DoOp(x, opnds) ==
  LET w == WrapOperands(x, opnds, <<>>)
      x0 == DetachStale(w.x, w.ts) ts == w.ts
      refs0 == IF x.guard THEN UAB(x0, ts, {}) ELSE <<>>
      x1 == LockAll(x0, refs0)
      o == Pick(FreeO(x1)) out == Pick(FreeA(x1)) t == Pick(FreeT(x1))
      x2 == [x1 EXCEPT !.arr[out] = [alive |-> TRUE, owner |-> 0, w |-> TRUE, w0 |-> TRUE, held |-> FALSE, touched |-> TRUE],
                        !.ten[t] = [alive |-> TRUE, arr |-> out, creator |-> o, base |-> 0, held |-> TRUE, reg |-> FALSE]]
      x3 == IF x.guard THEN Lock(x2, out, FALSE) ELSE x2
  IN [x3 EXCEPT !.op[o] = [alive |-> TRUE, vars |-> ts, out |-> t,
                           refs |-> IF x.guard THEN Append(refs0, out) ELSE <<>>, guarded |-> x.guard, unreg |-> {}]]

\* a non-view operation writing into a user-supplied ndarray:  f(..., out=<array>).  The result tensor wraps the
\* user's array itself; the array (and its base, if it is a view) is locked like any output.
DoOpOut(x, opnds, outa) ==
  LET w == WrapOperands(x, opnds, <<>>)
      x0 == DetachStale(w.x, w.ts) ts == w.ts
      refs0 == IF x.guard THEN UAB(x0, ts, {}) ELSE <<>>
      x1 == LockAll(x0, refs0)
      o == Pick(FreeO(x1)) t == Pick(FreeT(x1))
      own == x1.arr[outa].owner
      x2 == [x1 EXCEPT !.ten[t] = [alive |-> TRUE, arr |-> outa, creator |-> o, base |-> 0, held |-> TRUE, reg |-> FALSE],
                        !.arr[outa].touched = TRUE]
      x3 == IF x.guard /\ own # 0 THEN [Lock(x2, own, FALSE) EXCEPT !.arr[own].touched = TRUE] ELSE x2
      x4 == IF x.guard THEN Lock(x3, outa, FALSE) ELSE x3
      refs == IF x.guard THEN refs0 \o (IF own # 0 THEN <<own>> ELSE <<>>) \o <<outa>> ELSE <<>>
  IN \* locking the inputs may have made the target read-only (it is, or aliases, an input): NumPy then refuses
     \* to write into it, the forward pass raises, and the statement is a failed operation
     IF ~x1.arr[outa].w THEN Collect(ReleaseAll(x1, refs0)) ELSE
     [x4 EXCEPT !.op[o] = [alive |-> TRUE, vars |-> ts, out |-> t, refs |-> refs, guarded |-> x.guard, unreg |-> {}]]

\* an in-place update of tensor t (an owner without registered views):   t[...] = value   /   t += value
\* (Tensor._in_place_op): a placeholder tensor takes over t's old array, its creator and its consumers; the update is
\* computed on a COPY of the memory with the guard switched off; afterwards - if guarding is on - the inputs are
\* locked as usual and the new array is force-locked, with a finaliser on the in-place operation.
InPlace(x, t, opnd) ==
  LET a0 == x.ten[t].arr
      \* the mutated copy is writeable iff the original is, or is merely locked by MyGrad
      mutw == x.arr[a0].w \/ Tracked(x, a0)
      w == WrapOperands(x, <<opnd>>, <<>>)
      x0 == IF mutw THEN DetachStale(w.x, w.ts) ELSE w.x vt == w.ts[1]
  IN IF ~mutw THEN Collect(x0)          \* natively read-only target: the update raises, nothing changes
     ELSE
     LET pt == Pick(FreeT(x0))
         x1 == [x0 EXCEPT !.ten[pt] = [alive |-> TRUE, arr |-> a0, creator |-> x0.ten[t].creator, base |-> 0, held |-> FALSE, reg |-> FALSE],
                          \* only the consumers still LISTED by t are re-routed to the placeholder.  KNOWN FINDING F-C09-1:
                          \* an operation recorded before a clear_graph emptied t's consumer list keeps pointing at t
                          !.op = [o \in Ops |-> IF @[o].alive /\ t \notin @[o].unreg
                                                THEN [@[o] EXCEPT !.vars = [i \in 1..Len(@) |-> IF @[i] = t THEN pt ELSE @[i]]]
                                                ELSE @[o]],
                          !.kf9 = @ \/ \E o \in Ops : x0.op[o].alive /\ t \in x0.op[o].unreg
                                                        /\ \E i \in 1..Len(x0.op[o].vars) : x0.op[o].vars[i] = t]
         a1 == Pick(FreeA(x1)) o == Pick(FreeO(x1))
         vars2 == <<pt, IF vt = t THEN pt ELSE vt>>
         x2 == [x1 EXCEPT !.arr[a1] = [alive |-> TRUE, owner |-> 0, w |-> TRUE, w0 |-> TRUE, held |-> FALSE, touched |-> TRUE],
                          !.ten[t] = [alive |-> TRUE, arr |-> a1, creator |-> o, base |-> 0, held |-> TRUE, reg |-> FALSE]]
         refs0 == IF x.guard THEN UAB(x2, vars2, {}) ELSE <<>>
         x3 == LockAll(x2, refs0)
         x4 == IF x.guard THEN Lock(x3, a1, TRUE) ELSE x3
     IN Collect([x4 EXCEPT !.op[o] = [alive |-> TRUE, vars |-> vars2, out |-> t,
                                      refs |-> IF x.guard THEN Append(refs0, a1) ELSE <<>>, guarded |-> x.guard, unreg |-> {}]])

\* ------------------------------------------------------------------ in-place update inside a view family
\* t[...] = value  where t is a base WITH registered views, or a registered view of its base (Tensor._in_place_op):
\*  1. every member of the family (base b and its registered views) gets a placeholder that takes over its old array,
\*     creator and (listed) consumers;
\*  2. the base's memory is copied (A1); when the target is a view, the view chain is replayed on the copy without
\*     tracking (V1) and the update writes into it;
\*  3. the in-place operation O1 runs with the guard off; afterwards - if guarding is on - its inputs are locked and its
\*     output array force-locked;
\*  4. target is a view: UnView(placeholder of b, updated view) -> its output IS A1 (locked once more as an output);
\*  5. every registered view is re-created from the (new) base: an ordinary view operation each.
Children(x, b) == {c \in Ten : x.ten[c].alive /\ x.ten[c].base = b /\ x.ten[c].creator # 0 /\ x.ten[c].reg
                               /\ x.op[x.ten[c].creator].vars = <<b>>}
\* the statement is offered only when every live tensor whose base is b is a registered direct view of b or a stale one
\* (views of views are outside this model's alphabet)
FamilyOK(x, b) == \A v \in Ten : (x.ten[v].alive /\ x.ten[v].base = b /\ x.ten[v].creator # 0) => x.op[x.ten[v].creator].vars = <<b>>
RECURSIVE MkPlaceholders(_, _, _)
MkPlaceholders(x, todo, acc) ==     \* acc : tensor -> its placeholder
  IF todo = <<>> THEN [x |-> x, ph |-> acc] ELSE
  LET u == Head(todo) p == Pick(FreeT(x))
      x1 == [x EXCEPT !.ten[p] = [alive |-> TRUE, arr |-> x.ten[u].arr, creator |-> x.ten[u].creator,
                                  \* (a view's placeholder points at the PLACEHOLDER of the base)
                                  base |-> IF x.ten[u].base = 0 THEN 0 ELSE acc[x.ten[u].base], held |-> FALSE, reg |-> FALSE]]
  IN MkPlaceholders(x1, Tail(todo), acc @@ (u :> p))
RECURSIVE Recreate(_, _, _)
Recreate(x, b, todo) ==             \* the registered views, re-created from the new base: one view operation each
  IF todo = <<>> THEN x ELSE
  LET c == Head(todo)
      refs0 == IF x.guard THEN UAB(x, <<b>>, {}) ELSE <<>>
      x1 == LockAll(x, refs0)
      pa == x.ten[b].arr
      o == Pick(FreeO(x1)) out == Pick(FreeA(x1))
      x2 == [x1 EXCEPT !.arr[out] = [alive |-> TRUE, owner |-> pa, w |-> x1.arr[pa].w, w0 |-> x1.arr[pa].w0,
                                      held |-> FALSE, touched |-> TRUE],
                        !.ten[c] = [alive |-> TRUE, arr |-> out, creator |-> o, base |-> b, held |-> x.ten[c].held, reg |-> TRUE]]
      x3 == IF x.guard THEN Lock(x2, out, FALSE) ELSE x2
  IN Recreate([x3 EXCEPT !.op[o] = [alive |-> TRUE, vars |-> <<b>>, out |-> c,
                                    refs |-> IF x.guard THEN Append(refs0, out) ELSE <<>>, guarded |-> x.guard, unreg |-> {}]],
              b, Tail(todo))
InPlaceFam(x00, t, opnd) ==
  \* a stale view (creator gone) detaches first and is then an owner of its own
  LET x0a == IF x00.ten[t].base # 0 /\ x00.ten[t].creator = 0 THEN [x00 EXCEPT !.ten[t].base = 0] ELSE x00
      b == IF x0a.ten[t].base = 0 THEN t ELSE x0a.ten[t].base
      a0 == x0a.ten[b].arr
      mutw == x0a.arr[a0].w \/ Tracked(x0a, a0)
      w == WrapOperands(x0a, <<opnd>>, <<>>)
      x0 == IF mutw THEN DetachStale(w.x, w.ts) ELSE w.x vt == w.ts[1]
  IN IF ~mutw THEN Collect(x0) ELSE
     LET C == Children(x0, b)
         fam == <<b>> \o SetToSortSeq(C, <)
         mk == MkPlaceholders(x0, fam, <<>>)
         ph == mk.ph
         missed == \E o \in Ops : x0.op[o].alive /\ \E i \in 1..Len(x0.op[o].vars) :
                                     x0.op[o].vars[i] \in DOMAIN ph /\ x0.op[o].vars[i] \in x0.op[o].unreg
         x1 == [mk.x EXCEPT !.op = [o \in Ops |-> IF @[o].alive
                                      THEN [@[o] EXCEPT !.vars = [i \in 1..Len(@) |->
                                              IF @[i] \in DOMAIN ph /\ @[i] \notin x0.op[o].unreg THEN ph[@[i]] ELSE @[i]]]
                                      ELSE @[o]],
                            !.kf9 = @ \/ missed]
         Sub(u) == IF u \in DOMAIN ph THEN ph[u] ELSE u
         a1 == Pick(FreeA(x1))
         x2 == [x1 EXCEPT !.arr[a1] = [alive |-> TRUE, owner |-> 0, w |-> TRUE, w0 |-> TRUE, held |-> FALSE, touched |-> TRUE]]
     IN IF t = b THEN
          LET o1 == Pick(FreeO(x2))
              vars1 == <<ph[b], Sub(vt)>>
              x3 == [x2 EXCEPT !.ten[b] = [alive |-> TRUE, arr |-> a1, creator |-> o1, base |-> 0, held |-> x0.ten[b].held, reg |-> FALSE]]
              refs0 == IF x0.guard THEN UAB(x3, vars1, {}) ELSE <<>>
              x4 == LockAll(x3, refs0)
              x5 == IF x0.guard THEN Lock(x4, a1, TRUE) ELSE x4
              x6 == [x5 EXCEPT !.op[o1] = [alive |-> TRUE, vars |-> vars1, out |-> b,
                                           refs |-> IF x0.guard THEN Append(refs0, a1) ELSE <<>>, guarded |-> x0.guard, unreg |-> {}]]
          IN Collect(Recreate(x6, b, Tail(fam)))
        ELSE
          LET v1 == Pick(FreeA(x2))
              x3 == [x2 EXCEPT !.arr[v1] = [alive |-> TRUE, owner |-> a1, w |-> TRUE, w0 |-> TRUE, held |-> FALSE, touched |-> TRUE]]
              pmv == Pick(FreeT(x3)) o1 == Pick(FreeO(x3))
              vars1 == <<ph[t], Sub(vt)>>
              x4 == [x3 EXCEPT !.ten[pmv] = [alive |-> TRUE, arr |-> v1, creator |-> o1, base |-> 0, held |-> FALSE, reg |-> FALSE]]
              refs0 == IF x0.guard THEN UAB(x4, vars1, {}) ELSE <<>>
              x5 == LockAll(x4, refs0)
              x6 == IF x0.guard THEN Lock(x5, v1, TRUE) ELSE x5
              x7 == [x6 EXCEPT !.op[o1] = [alive |-> TRUE, vars |-> vars1, out |-> pmv,
                                           refs |-> IF x0.guard THEN Append(refs0, v1) ELSE <<>>, guarded |-> x0.guard, unreg |-> {}]]
              \* UnView: inputs = placeholder of the base and the updated view; its output array is A1 itself
              o2 == Pick(FreeO(x7))
              vars2 == <<ph[b], pmv>>
              refs2 == IF x0.guard THEN UAB(x7, vars2, {}) ELSE <<>>
              x8 == LockAll(x7, refs2)
              x9 == IF x0.guard THEN Lock(x8, a1, FALSE) ELSE x8
              x10 == [x9 EXCEPT !.ten[b] = [alive |-> TRUE, arr |-> a1, creator |-> o2, base |-> 0, held |-> x0.ten[b].held, reg |-> FALSE],
                                !.op[o2] = [alive |-> TRUE, vars |-> vars2, out |-> b,
                                            refs |-> IF x0.guard THEN Append(refs2, a1) ELSE <<>>, guarded |-> x0.guard, unreg |-> {}]]
          IN Collect(Recreate(x10, b, Tail(fam)))

\* a view operation on tensor p (basic indexing ...): the result's array is a NumPy view of p's array
DoView(x00, p) ==
  LET ts == <<p>>
      x == DetachStale(x00, ts)
      refs0 == IF x.guard THEN UAB(x, ts, {}) ELSE <<>>
      x1 == LockAll(x, refs0)
      pa == x.ten[p].arr
      own == IF x.arr[pa].owner = 0 THEN pa ELSE x.arr[pa].owner
      o == Pick(FreeO(x1)) out == Pick(FreeA(x1)) t == Pick(FreeT(x1))
      x2 == [x1 EXCEPT !.arr[out] = [alive |-> TRUE, owner |-> own, w |-> x1.arr[pa].w, w0 |-> x1.arr[own].w0,
                                      held |-> FALSE, touched |-> TRUE],
                        !.ten[t] = [alive |-> TRUE, arr |-> out, creator |-> o,
                                    base |-> IF x.ten[p].base = 0 THEN p ELSE x.ten[p].base, held |-> TRUE, reg |-> TRUE]]
      x3 == IF x.guard THEN Lock(x2, out, FALSE) ELSE x2
  IN [x3 EXCEPT !.op[o] = [alive |-> TRUE, vars |-> ts, out |-> t,
                           refs |-> IF x.guard THEN Append(refs0, out) ELSE <<>>, guarded |-> x.guard, unreg |-> {}]]

\* an operation whose forward pass raises: inputs are locked, then released again; the temporaries die
FailOp(x, opnds) ==
  LET w == WrapOperands(x, opnds, <<>>)
      refs0 == IF x.guard THEN UAB(w.x, w.ts, {}) ELSE <<>>
  IN Collect(ReleaseAll(LockAll(w.x, refs0), refs0))

\* clear_graph() from tensor t (also the tail of backward()): creators dropped upstream, recursively
\* (clear_graph drops a tensor's creator BEFORE it recurses, so a cycle - possible once F-C09-1 has been triggered -
\*  does not trap it)
RECURSIVE UpstreamV(_, _, _)
UpstreamV(x, todo, seen) ==
  IF todo = {} THEN seen ELSE
  LET t == CHOOSE u \in todo : TRUE
      nxt == IF x.ten[t].creator = 0 THEN {}
             ELSE {x.op[x.ten[t].creator].vars[i] : i \in 1..Len(x.op[x.ten[t].creator].vars)}
  IN UpstreamV(x, (todo \cup nxt) \ (seen \cup {t}), seen \cup {t})
Upstream(x, t) == UpstreamV(x, {t}, {})
\* (every tensor visited also forgets its consumers: `_ops.clear()`)
Clear(x, t) == LET up == Upstream(x, t) IN
  Collect([x EXCEPT !.ten = [u \in Ten |-> IF u \in up THEN [@[u] EXCEPT !.creator = 0]
                                            ELSE IF @[u].alive /\ @[u].creator # 0 /\ x.op[@[u].creator].alive
                                                    /\ \E i \in 1..Len(x.op[@[u].creator].vars) : x.op[@[u].creator].vars[i] \in up
                                                 THEN [@[u] EXCEPT !.reg = FALSE] ELSE @[u]],
                    !.op = [o \in Ops |-> IF @[o].alive
                                          THEN [@[o] EXCEPT !.unreg = @ \cup (up \cap {x.op[o].vars[i] : i \in 1..Len(x.op[o].vars)})]
                                          ELSE @[o]]])

\* the user keeps a reference to a tensor's ndarray:  d = t.data
DataOf(x, t) == [x EXCEPT !.arr[x.ten[t].arr].held = TRUE]
DropT(x, t) == Collect([x EXCEPT !.ten[t].held = FALSE])
DropA(x, a) == Collect([x EXCEPT !.arr[a].held = FALSE])
SetGuard(x, b) == [x EXCEPT !.guard = b]

\* ------------------------------------------------------------------ the statement language
Apply(x, e) ==
  CASE e.k = "newarr" -> NewArr(x, e.w)
    [] e.k = "npview" -> NpView(x, e.a)
    [] e.k = "freeze" -> Freeze(x, e.a)
    [] e.k = "wrap"   -> Wrap(x, e.a)
    [] e.k = "op"     -> DoOp(x, e.ins)
    [] e.k = "opout"  -> DoOpOut(x, e.ins, e.out)
    [] e.k = "inplace" -> InPlace(x, e.t, e.val)
    [] e.k = "inplacefam" -> InPlaceFam(x, e.t, e.val)
    [] e.k = "view"   -> DoView(x, e.t)
    [] e.k = "fail"   -> FailOp(x, e.ins)
    [] e.k = "dataof" -> DataOf(x, e.t)
    [] e.k = "clear"  -> Clear(x, e.t)
    [] e.k = "dropt"  -> DropT(x, e.t)
    [] e.k = "dropa"  -> DropA(x, e.a)
    [] e.k = "guard"  -> SetGuard(x, e.on)

HeldA(x) == {a \in Arr : x.arr[a].alive /\ x.arr[a].held}
HeldT(x) == {t \in Ten : x.ten[t].alive /\ x.ten[t].held}
Operands(x) == {<<"t", t>> : t \in HeldT(x)} \cup {<<"a", a>> : a \in HeldA(x)}
Room(x, na, nt, no) == Cardinality(FreeA(x)) >= na /\ Cardinality(FreeT(x)) >= nt /\ Cardinality(FreeO(x)) >= no

Stmts(x) ==
  (IF "newarr" \in Alphabet /\ Room(x, 1, 0, 0) THEN {[k |-> "newarr", w |-> w] : w \in BOOLEAN} ELSE {})
  \cup (IF "npview" \in Alphabet /\ Room(x, 1, 0, 0) THEN {[k |-> "npview", a |-> a] : a \in HeldA(x)} ELSE {})
  \cup (IF "freeze" \in Alphabet THEN {[k |-> "freeze", a |-> a] : a \in {b \in HeldA(x) : x.arr[b].w /\ ~x.arr[b].touched}} ELSE {})
  \cup (IF "wrap" \in Alphabet /\ Room(x, 0, 1, 0) THEN {[k |-> "wrap", a |-> a] : a \in HeldA(x)} ELSE {})
  \cup (IF "op" \in Alphabet /\ Room(x, 1, 3, 1) THEN
          {[k |-> "op", ins |-> <<p>>] : p \in Operands(x)}
          \cup {[k |-> "op", ins |-> <<p, q>>] : p \in Operands(x), q \in Operands(x)} ELSE {})
  \cup (IF "opout" \in Alphabet /\ Room(x, 0, 3, 1) THEN
          {[k |-> "opout", ins |-> <<p>>, out |-> a] : p \in Operands(x), a \in {b \in HeldA(x) : x.arr[b].w}}
          \cup {[k |-> "opout", ins |-> <<p, q>>, out |-> a] : p \in Operands(x), q \in Operands(x),
                                                               a \in {b \in HeldA(x) : x.arr[b].w}} ELSE {})
  \cup (IF "failout" \in Alphabet /\ Room(x, 0, 2, 0) THEN
          {[k |-> "fail", ins |-> <<p, q>>, badout |-> TRUE] : p \in Operands(x), q \in Operands(x)} ELSE {})
  \cup (IF "inplace" \in Alphabet /\ Room(x, 1, 2, 1) THEN
          {[k |-> "inplace", t |-> t, val |-> p] :
             t \in {u \in HeldT(x) : x.arr[x.ten[u].arr].owner = 0 /\ x.ten[u].base = 0
                                       /\ ~\E v \in Ten : x.ten[v].alive /\ x.ten[v].base = u},
             p \in Operands(x)} ELSE {})
  \cup (IF "inplacefam" \in Alphabet THEN
          {[k |-> "inplacefam", t |-> t, val |-> p] :
             t \in {u \in HeldT(x) : LET b == IF x.ten[u].base = 0 \/ x.ten[u].creator = 0 THEN u ELSE x.ten[u].base IN
                                      /\ x.ten[b].alive /\ x.ten[b].base = 0 /\ x.arr[x.ten[b].arr].owner = 0
                                      /\ (u = b \/ u \in Children(x, b)) /\ FamilyOK(x, b)
                                      /\ Room(x, 3 + Cardinality(Children(x, b)), 4 + Cardinality(Children(x, b)),
                                              2 + Cardinality(Children(x, b)))},
             p \in Operands(x)} ELSE {})
  \cup (IF "view" \in Alphabet /\ Room(x, 1, 1, 1) THEN {[k |-> "view", t |-> t] : t \in HeldT(x)} ELSE {})
  \cup (IF "fail" \in Alphabet /\ Room(x, 0, 2, 0) THEN
          {[k |-> "fail", ins |-> <<p, q>>] : p \in Operands(x), q \in Operands(x)} ELSE {})
  \cup (IF "dataof" \in Alphabet THEN {[k |-> "dataof", t |-> t] : t \in {u \in HeldT(x) : ~x.arr[x.ten[u].arr].held}} ELSE {})
  \cup (IF "clear" \in Alphabet THEN {[k |-> "clear", t |-> t] : t \in {u \in HeldT(x) : x.ten[u].creator # 0}} ELSE {})
  \cup (IF "dropt" \in Alphabet THEN {[k |-> "dropt", t |-> t] : t \in HeldT(x)} ELSE {})
  \cup (IF "dropa" \in Alphabet THEN {[k |-> "dropa", a |-> a] : a \in HeldA(x)} ELSE {})
  \cup (IF "guard" \in Alphabet THEN {[k |-> "guard", on |-> ~x.guard]} ELSE {})

\* what a user can observe: the writeable flag of every array they can still reach, and of every tensor's data
Proj(x) == [aw |-> [a \in Arr |-> IF x.arr[a].alive /\ x.arr[a].held THEN (IF x.arr[a].w THEN 1 ELSE 0) ELSE -1],
            tw |-> [t \in Ten |-> IF x.ten[t].alive /\ x.ten[t].held THEN (IF x.arr[x.ten[t].arr].w THEN 1 ELSE 0) ELSE -1],
            ntrk |-> Cardinality({a \in x.trk : TRUE}),
            ncnt |-> Cardinality({a \in Arr : x.cnt[a] > 0}),
            nwait |-> Cardinality({a \in Arr : x.wait[a] # {}})]

Init == s = InitS /\ hist = <<>>
Next == /\ (EmitHist => Len(hist) < MaxLen)
        /\ \E e \in Stmts(s) :
              /\ s' = Apply(s, e)
              /\ hist' = IF EmitHist
                          THEN Append(hist, [ev |-> e, proj |-> Proj(s'),
                                             \* ids of the objects the statement handed to the user
                                             newa |-> SetToSeq({a \in Arr : s'.arr[a].alive /\ s'.arr[a].held /\ ~(s.arr[a].alive /\ s.arr[a].held)}),
                                             newt |-> SetToSeq({t \in Ten : s'.ten[t].alive /\ s'.ten[t].held /\ ~s.ten[t].alive})])
                          ELSE <<>>
Spec == Init /\ [][Next]_vars

\* ------------------------------------------------------------------ properties
LiveOps == {o \in Ops : s.op[o].alive}
OpArrs(o) == {s.op[o].refs[i] : i \in 1..Len(s.op[o].refs)}
\* (S) while an operation recorded under the guard is alive, the arrays it recorded are read-only
\* (histories in which the known finding F-C09-1 was triggered are exempt: the traversal of a missed consumer clears the
\*  mutated tensor's new graph and releases its locks early)
Safe == ~s.kf9 => \A o \in LiveOps : s.op[o].guarded => \A a \in OpArrs(o) : s.arr[a].alive => ~s.arr[a].w
\* an array is "in a live graph" if a live op recorded it, its owner, or a view of it
InLive(a) == \E o \in LiveOps : a \in OpArrs(o)
Involved(a) == InLive(a) \/ (s.arr[a].owner # 0 /\ InLive(s.arr[a].owner))
               \/ \E v \in Arr : s.arr[v].alive /\ s.arr[v].owner = a /\ InLive(v)
\* KNOWN FINDING F-C08-2: a view that was writeable when taken, of a base the user made read-only afterwards.
\* MyGrad locks the view, parks it "waiting for its base" on release, and the untracked base is never released
\* (NumPy would in any case refuse to make a view of a read-only base writeable again).
KF_C08_2(a) == s.arr[a].owner # 0 /\ s.arr[a].w0 /\ ~s.arr[s.arr[a].owner].w0
\* KNOWN FINDING F-C08-3: a view the user made read-only themselves, of a base that is writeable.  When the base is
\* tracked, MyGrad cannot tell it from a view that merely inherited the lock, tracks it, and "restores" it to
\* writeable on release.
KF_C08_3(a) == s.arr[a].owner # 0 /\ ~s.arr[a].w0 /\ s.arr[s.arr[a].owner].w0
\* (R) once no live graph refers to an array MyGrad touched, its flag is the original one
Restored == \A a \in Arr : (s.arr[a].alive /\ s.arr[a].touched /\ ~Involved(a) /\ ~KF_C08_2(a) /\ ~KF_C08_3(a))
                               => s.arr[a].w = s.arr[a].w0
\* the known findings themselves, as invariants of their own: TLC's counterexample to ~KF is the witness history
NoKF2 == \A a \in Arr : (s.arr[a].alive /\ s.arr[a].touched /\ ~Involved(a) /\ KF_C08_2(a)) => s.arr[a].w = s.arr[a].w0
NoKF3 == \A a \in Arr : (s.arr[a].alive /\ s.arr[a].touched /\ ~Involved(a) /\ KF_C08_3(a)) => s.arr[a].w = s.arr[a].w0
\* at quiescence no live array is counted or tracked any more (a stale id may linger in a waiting set: the
\* code's own clean-up handles that lazily and it never influences a flag)
NoLeak == (LiveOps = {}) =>
            \A a \in Arr : (s.arr[a].alive /\ ~KF_C08_2(a)) => (s.cnt[a] = 0 /\ a \notin s.trk)
CountersSane == \A a \in Arr : s.cnt[a] >= 0

\* trace display: only the statement that produced each state, and what the user sees
TraceAlias == [ev |-> IF hist = <<>> THEN <<>> ELSE hist[Len(hist)].ev,
               aw |-> [a \in Arr |-> IF s.arr[a].alive THEN <<s.arr[a].w, s.arr[a].w0, s.arr[a].owner>> ELSE <<>>],
               cnt |-> s.cnt, trk |-> s.trk, wait |-> s.wait, live |-> {o \in Ops : s.op[o].alive}]
Emit == (EmitHist /\ Len(hist) = MaxLen) => PrintT(<<"BEHAVIOUR", ToJson(hist)>>)
=============================================================================

------------------------------ MODULE OpTable ------------------------------
(* C02, exact fragment: the option lattice of every operation the reference  *)
(* (Ref.tla) defines, as single-operation programs                           *)
(*        leaves ; [view of a leaf] ; operation ; backward(seed g)           *)
(* TLC enumerates every cell (operation x operand shapes incl. 0-d, empty,   *)
(* broadcasting x operand kind (tensor / constant tensor / transposed view)  *)
(* x axis / keepdims / ddof / index kind ...), computes value, shape and the  *)
(* exact vector-Jacobian product  g . df/dx  for a non-trivial filler g from  *)
(* the forward definition over dual numbers (no backward rule is written),    *)
(* and emits the program with the predicted projection; the harness replays   *)
(* every cell on MyGrad.                                                      *)
EXTENDS Ref, Json, SequencesExt, FiniteSetsExt

CONSTANT Group     \* which family of cells this run enumerates
VARIABLE cellprog
vars == <<cellprog>>

Q(n) == <<n, 1>>
H2(n) == RNorm(n, 2)
\* deterministic fillers
FillA(i) == Q(((i * 7) % 11) - 5)                       \* -5..5, hits 0
FillNZ(i) == LET v == ((i * 7) % 11) - 5 IN IF v = 0 THEN Q(6) ELSE Q(v)
FillB(i) == H2(((i * 5) % 9) - 4)                       \* halves, hits 0
FillBNZ(i) == LET v == ((i * 5) % 9) - 4 IN IF v = 0 THEN H2(7) ELSE H2(v)
FillG(i) == Q(((i * 3) % 5) - 2)                        \* seed filler (-2..2, hits 0)
FillD(i) == Q(i * 2 - 7)                                \* strictly increasing: no ties
Fill(name, i) == CASE name = "A" -> FillA(i) [] name = "NZ" -> FillNZ(i) [] name = "B" -> FillB(i) [] name = "BNZ" -> FillBNZ(i)
                   [] name = "G" -> FillG(i) [] name = "D" -> FillD(i)
Vec(n, name) == [i \in 1..n |-> Fill(name, i)]

Leaf(h, sh, name, const) == [k |-> "leaf", h |-> h, sh |-> sh, v |-> Vec(Size(sh), name), const |-> const]
Opnd(h) == [h |-> h]
SeedFor(sh) == [arr |-> [sh |-> sh, v |-> Vec(Size(sh), "G")]]
SL(nlo, lo, nhi, hi, nst, step) == [t |-> "slice", nlo |-> nlo, nhi |-> nhi, nst |-> nst, lo |-> lo, hi |-> hi, st |-> step]
Full == SL(TRUE, 0, TRUE, 0, TRUE, 1)
IntI(i) == [t |-> "int", i |-> i]
Basic(items) == [t |-> "basic", items |-> items]

\* run a statement list, collecting the predicted projection after every statement
Proj(s) ==
  [t |-> [h \in 1..Len(s.H) |->
            IF ~s.H[h].live THEN [live |-> FALSE]
            ELSE [live |-> TRUE, v |-> Vals(s, h), sh |-> s.H[h].sh, const |-> s.H[h].const,
                  base |-> ObsBase(s, h), crn |-> ~HasCr(s, h), g |-> ObsGrad(s, h)]],
   share |-> SetToSeq({<<a, b>> \in Handles(s) \X Handles(s) : a < b /\ Shares(s, a, b)}),
   kf |-> SetToSeq(s.kf)]
RECURSIVE Run(_, _, _)
Run(s, stmts, acc) == IF stmts = <<>> THEN acc
                      ELSE LET s2 == Apply(s, Head(stmts)) IN Run(s2, Tail(stmts), Append(acc, [stmt |-> Head(stmts), proj |-> Proj(s2)]))
\* the result handle of the operation is always the last handle; backward with a filler seed of its shape
Finish(stmts) ==
  LET hist == Run(InitSt, stmts, <<>>)
      last == hist[Len(hist)].proj.t
      rh == Len(last)
  IN IF last[rh].const THEN hist
     ELSE LET s == [k |-> "backward", h |-> rh, seed |-> SeedFor(last[rh].sh)]
              full == Run(InitSt, Append(stmts, s), <<>>)
          IN full

\* ---------------------------------------------------------------- cells
Shapes1 == {<<>>, <<3>>, <<0>>, <<2, 3>>, <<1, 3>>, <<2, 1>>, <<7>>}       \* (filler A is zero at position 7: the kinks are hit)
BPairs == {<<<<3>>, <<3>>>>, <<<<2, 3>>, <<3>>>>, <<<<2, 1>>, <<1, 3>>>>, <<<<>>, <<3>>>>, <<<<2, 3>>, <<>>>>, <<<<0>>, <<0>>>>,
           <<<<2, 3>>, <<2, 3>>>>, <<<<1, 3>>, <<2, 1>>>>}
Kinds2 == {<<FALSE, FALSE>>, <<FALSE, TRUE>>, <<TRUE, FALSE>>}          \* constant flags of the two operands

BinProgs ==
  UNION {{<< Leaf(1, p[1], IF f = "divide" THEN "NZ" ELSE "A", k[1]), Leaf(2, p[2], IF f = "divide" THEN "BNZ" ELSE "B", k[2]),
             [k |-> "op", h |-> 3, f |-> f, a |-> <<Opnd(1), Opnd(2)>>] >> : p \in BPairs, k \in Kinds2}
         : f \in {"add", "subtract", "multiply", "divide", "maximum", "minimum"}}
  \* the same tensor on both sides, and an operand that is a transposed view
  \cup {<< Leaf(1, <<2, 2>>, "NZ", FALSE), [k |-> "op", h |-> 2, f |-> f, a |-> <<Opnd(1), Opnd(1)>>] >> :
          f \in {"add", "subtract", "multiply", "divide"}}
  \cup {<< Leaf(1, <<2, 3>>, "NZ", FALSE), Leaf(2, <<3, 2>>, "BNZ", FALSE), [k |-> "op", h |-> 3, f |-> "T", a |-> <<Opnd(2)>>],
           [k |-> "op", h |-> 4, f |-> f, a |-> <<Opnd(1), Opnd(3)>>] >> : f \in {"add", "multiply", "divide", "maximum"}}
  \* a tensor together with its own ndarray (x.data): a constant that shares the tensor's memory
  \cup {<< Leaf(1, <<2, 3>>, "NZ", FALSE), [k |-> "op", h |-> 2, f |-> f, a |-> o] >> :
          f \in {"add", "subtract", "multiply", "divide", "maximum"}, o \in {<<Opnd(1), [hd |-> 1]>>, <<[hd |-> 1], Opnd(1)>>}}
  \* Python-scalar and plain-array operands
  \cup {<< Leaf(1, <<2, 3>>, "NZ", FALSE), [k |-> "op", h |-> 2, f |-> f, a |-> o] >> :
          f \in {"add", "subtract", "multiply", "divide"},
          o \in {<<Opnd(1), [s |-> H2(3)]>>, <<[s |-> Q(-2)], Opnd(1)>>, <<Opnd(1), [arr |-> [sh |-> <<3>>, v |-> Vec(3, "BNZ")]]>>}}

\* where=mask without out= (masked-out cells zeroed by the harness on both sides): full, broadcast and all-False masks
WMasks(sh) == IF sh = <<2, 3>> THEN {[sh |-> <<2, 3>>, v |-> <<TRUE, FALSE, TRUE, FALSE, FALSE, TRUE>>], [sh |-> <<3>>, v |-> <<FALSE, TRUE, TRUE>>],
                                     [sh |-> <<2, 1>>, v |-> <<TRUE, FALSE>>], [sh |-> <<1>>, v |-> <<FALSE>>]}
              ELSE {[sh |-> <<3>>, v |-> <<TRUE, FALSE, TRUE>>], [sh |-> <<>>, v |-> <<FALSE>>]}
WhereMaskProgs ==
  UNION {{<< Leaf(1, p[1], "A", k[1]), Leaf(2, p[2], "B", k[2]), [k |-> "op", h |-> 3, f |-> f, a |-> <<Opnd(1), Opnd(2)>>, wm |-> m] >> :
            f \in {"add", "subtract", "multiply", "maximum"}, k \in Kinds2, m \in WMasks(p[1])}
         : p \in {<<<<2, 3>>, <<2, 3>>>>, <<<<2, 3>>, <<3>>>>, <<<<3>>, <<3>>>>}}
  \cup UNION {{<< Leaf(1, sh, "A", FALSE), [k |-> "op", h |-> 2, f |-> f, a |-> <<Opnd(1)>>, wm |-> m] >> :
                 f \in {"negative", "positive", "square", "abs"}, m \in WMasks(sh)} : sh \in {<<2, 3>>, <<3>>}}
  \* the masked result used once more before backward: its own gradient is an interior gradient the caller can read
  \cup {<< Leaf(1, <<3>>, "A", FALSE), Leaf(2, <<3>>, "B", FALSE), [k |-> "op", h |-> 3, f |-> f, a |-> <<Opnd(1), Opnd(2)>>, wm |-> m],
           [k |-> "op", h |-> 4, f |-> "multiply", a |-> <<Opnd(3), [s |-> Q(3)]>>] >> :
          f \in {"add", "subtract"}, m \in WMasks(<<3>>)}

UnProgs ==
  {<< Leaf(1, sh, IF f \in {"reciprocal"} THEN "NZ" ELSE "A", FALSE), [k |-> "op", h |-> 2, f |-> f, a |-> <<Opnd(1)>>] >> :
     f \in {"negative", "positive", "square", "abs", "reciprocal", "relu"}, sh \in Shapes1}
  \cup {<< Leaf(1, sh, IF p < 0 THEN "NZ" ELSE "A", FALSE), [k |-> "op", h |-> 2, f |-> "power", a |-> <<Opnd(1)>>, p |-> p] >> :
          p \in {-2, -1, 0, 1, 2, 3}, sh \in {<<3>>, <<>>, <<2, 2>>}}

AxisOpts(sh) == {<<>>} \cup (IF Len(sh) >= 1 THEN {[axis |-> <<0>>], [axis |-> <<-1>>], [axis |-> <<>>, axis_tuple |-> TRUE],
                                                  [axis |-> <<0>>, keepdims |-> TRUE]} ELSE {[axis |-> <<>>, axis_tuple |-> TRUE]})
                     \cup (IF Len(sh) >= 2 THEN {[axis |-> <<0, 1>>, axis_tuple |-> TRUE], [axis |-> <<-1, 0>>, axis_tuple |-> TRUE, keepdims |-> TRUE],
                                                  [axis |-> <<1>>]} ELSE {})
RedShapes == {<<3>>, <<2, 3>>, <<>>, <<2, 1, 2>>}
RedProgs ==
  UNION {UNION {{<< Leaf(1, sh, IF f \in {"max", "min"} THEN "D" ELSE "B", FALSE),
                    [k |-> "op", h |-> 2, f |-> f, a |-> <<Opnd(1)>>, kw |-> kw] >> : kw \in AxisOpts(sh)} : sh \in RedShapes}
         : f \in {"sum", "mean", "prod", "max", "min"}}
  \cup UNION {{<< Leaf(1, sh, "B", FALSE),
                  [k |-> "op", h |-> 2, f |-> "var", a |-> <<Opnd(1)>>, kw |-> kw] >> :
                 kw \in {<<>>, [axis |-> <<0>>], [axis |-> <<-1>>, keepdims |-> TRUE], [ddof |-> 1], [axis |-> <<0>>, ddof |-> 1]}}
              : sh \in {<<3>>, <<2, 3>>}}
  \* operands that are not C-contiguous: a transposed view, a Fortran-ordered leaf
  \cup UNION {{<< Leaf(1, <<2, 3>>, IF f \in {"max", "min"} THEN "D" ELSE "B", FALSE), [k |-> "op", h |-> 2, f |-> "T", a |-> <<Opnd(1)>>],
                  [k |-> "op", h |-> 3, f |-> f, a |-> <<Opnd(2)>>, kw |-> kw] >> : kw \in AxisOpts(<<3, 2>>)}
              : f \in {"sum", "mean", "prod", "max", "min", "var"}}
  \cup UNION {{<< [k |-> "leaf", h |-> 1, sh |-> <<2, 3>>, v |-> Vec(6, IF f \in {"max", "min"} THEN "D" ELSE "B"), const |-> FALSE, order |-> "F"],
                  [k |-> "op", h |-> 2, f |-> f, a |-> <<Opnd(1)>>, kw |-> kw] >> : kw \in AxisOpts(<<2, 3>>)}
              : f \in {"sum", "prod", "max", "min"}}
  \* three dimensions, reduced axes that are not one block (first and last), every spelling of the axis tuple
  \cup {<< Leaf(1, <<2, 3, 2>>, IF f \in {"max", "min"} THEN "D" ELSE "B", FALSE),
           [k |-> "op", h |-> 2, f |-> f, a |-> <<Opnd(1)>>, kw |-> kw] >> :
          f \in {"sum", "mean", "prod", "max", "min", "var"},
          kw \in {[axis |-> <<0, 2>>, axis_tuple |-> TRUE], [axis |-> <<-3, -1>>, axis_tuple |-> TRUE, keepdims |-> TRUE],
                  [axis |-> <<2, 0>>, axis_tuple |-> TRUE], [axis |-> <<1, 2>>, axis_tuple |-> TRUE], [axis |-> <<0, 1>>, axis_tuple |-> TRUE, keepdims |-> TRUE]}}
  \* prod with one zero and with several zeros per lane
  \cup {<< [k |-> "leaf", h |-> 1, sh |-> <<2, 3>>, v |-> vv, const |-> FALSE],
           [k |-> "op", h |-> 2, f |-> "prod", a |-> <<Opnd(1)>>, kw |-> kw] >> :
          vv \in {<<Q(2), Q(0), Q(3), Q(-1), Q(4), Q(2)>>, <<Q(0), Q(0), Q(3), Q(-1), Q(0), Q(2)>>, <<Q(0), Q(0), Q(0), Q(1), Q(2), Q(3)>>},
          kw \in {<<>>, [axis |-> <<0>>], [axis |-> <<1>>]}}

MatProgs ==
  {<< Leaf(1, p[1], "A", k[1]), Leaf(2, p[2], "B", k[2]), [k |-> "op", h |-> 3, f |-> "matmul", a |-> <<Opnd(1), Opnd(2)>>] >> :
     p \in {<<<<2, 3>>, <<3, 2>>>>, <<<<3>>, <<3>>>>, <<<<2, 3>>, <<3>>>>, <<<<3>>, <<3, 2>>>>, <<<<2, 1, 3>>, <<3, 2>>>>, <<<<2, 2, 3>>, <<2, 3, 1>>>>,
            <<<<1, 2, 3>>, <<2, 3, 2>>>>},
     k \in Kinds2}

\* multi_matmul: chains of three and four operands, 1-D ends, every mix of constant flags, a plain array as an operand
MultiMatProgs ==
  {<< Leaf(1, p[1], "A", k[1]), Leaf(2, p[2], "B", k[2]), Leaf(3, p[3], "NZ", k[3]),
      [k |-> "op", h |-> 4, f |-> "multimatmul", a |-> <<Opnd(1), Opnd(2), Opnd(3)>>] >> :
     p \in {<<<<2, 3>>, <<3, 2>>, <<2, 2>>>>, <<<<3>>, <<3, 2>>, <<2>>>>, <<<<2, 3>>, <<3, 2>>, <<2>>>>, <<<<3>>, <<3, 2>>, <<2, 2>>>>,
            <<<<1, 3>>, <<3, 3>>, <<3, 1>>>>},
     k \in {<<a, b, c>> : a \in BOOLEAN, b \in BOOLEAN, c \in BOOLEAN}}
  \cup {<< Leaf(1, <<2, 3>>, "A", k[1]), Leaf(2, <<3>>, "B", k[2]),
           [k |-> "op", h |-> 3, f |-> "multimatmul", a |-> os] >> :
          k \in {<<FALSE, FALSE>>, <<TRUE, FALSE>>, <<FALSE, TRUE>>},
          os \in {<<[arr |-> [sh |-> <<2, 2>>, v |-> Vec(4, "NZ")]], Opnd(1), Opnd(2)>>,                 \* array first, 1-D tensor last
                  <<[arr |-> [sh |-> <<2>>, v |-> Vec(2, "NZ")]], Opnd(1), Opnd(2)>>,                    \* 1-D array first
                  <<Opnd(2), [arr |-> [sh |-> <<3, 2>>, v |-> Vec(6, "NZ")]], Opnd(1), Opnd(2)>>,        \* the same tensor at both ends
                  <<Opnd(1), [arr |-> [sh |-> <<3, 3>>, v |-> Vec(9, "NZ")]], [arr |-> [sh |-> <<3>>, v |-> Vec(3, "B")]]>>}}
  \cup {<< Leaf(1, <<3>>, "A", k[1]), Leaf(2, <<3, 2>>, "B", FALSE), Leaf(3, <<2, 3>>, "NZ", k[2]), Leaf(4, <<3>>, "B", k[3]),
           [k |-> "op", h |-> 5, f |-> "multimatmul", a |-> <<Opnd(1), Opnd(2), Opnd(3), Opnd(4)>>, kw |-> kw] >> :
          k \in {<<a, b, c>> : a \in BOOLEAN, b \in BOOLEAN, c \in BOOLEAN}, kw \in {<<>>, [constant |-> "false"]}}

IdxFor(sh) ==
  IF Len(sh) = 1 THEN {Basic(<<SL(TRUE, 0, FALSE, 2, TRUE, 1)>>), Basic(<<SL(TRUE, 0, TRUE, 0, FALSE, -1)>>), Basic(<<IntI(-1)>>),
                       Basic(<<[t |-> "new"], Full>>), Basic(<<[t |-> "ell"]>>),
                       [t |-> "adv", arrs |-> <<[sh |-> <<3>>, v |-> <<0, 0, 2>>]>>],
                       [t |-> "adv", arrs |-> <<[sh |-> <<3>>, v |-> <<0, 0, 2>>]>>, as |-> "tuple"],
                       [t |-> "adv", arrs |-> <<[sh |-> <<3>>, v |-> <<2, -2, 2>>]>>, as |-> "tensor"],
                       [t |-> "adv", arrs |-> <<[sh |-> <<3>>, v |-> <<1, 1, 1>>]>>, as |-> "list"],
                       [t |-> "adv", arrs |-> <<[sh |-> <<3>>, v |-> <<0, 0, 2>>]>>, as |-> "i4"],       \* index arrays of other integer dtypes
                       [t |-> "adv", arrs |-> <<[sh |-> <<3>>, v |-> <<2, -2, 2>>]>>, as |-> "i1"],
                       [t |-> "adv", arrs |-> <<[sh |-> <<3>>, v |-> <<-1, 0, 2>>]>>, as |-> "bare"],
                       [t |-> "adv", arrs |-> <<[sh |-> <<3>>, v |-> <<1, 1, 1>>]>>, as |-> "u1"],
                       [t |-> "adv", arrs |-> <<[sh |-> <<2, 2>>, v |-> <<1, -1, 0, 1>>]>>],
                       [t |-> "mask", m |-> [sh |-> <<sh[1]>>, v |-> [i \in 1..sh[1] |-> i % 2 = 1]]]}
  ELSE {Basic(<<IntI(0)>>), Basic(<<Full, IntI(-1)>>), Basic(<<SL(TRUE, 0, TRUE, 0, FALSE, -1), SL(FALSE, 1, TRUE, 0, TRUE, 1)>>),
        Basic(<<IntI(1), IntI(0)>>), Basic(<<[t |-> "ell"], [t |-> "new"]>>),
        [t |-> "adv", arrs |-> <<[sh |-> <<2>>, v |-> <<1, 1>>], [sh |-> <<2>>, v |-> <<0, 2>>]>>],
        [t |-> "adv", arrs |-> <<[sh |-> <<3>>, v |-> <<1, 1, 1>>], [sh |-> <<3>>, v |-> <<0, 2, 0>>]>>, as |-> "tuple"],
        [t |-> "adv", arrs |-> <<[sh |-> <<3>>, v |-> <<1, 1, 1>>], [sh |-> <<3>>, v |-> <<0, 2, 0>>]>>, as |-> "tensor"],
        [t |-> "adv", arrs |-> <<[sh |-> <<3>>, v |-> <<0, 1, 0>>]>>],
        [t |-> "adv", arrs |-> <<[sh |-> <<3>>, v |-> <<1, 1, 1>>], [sh |-> <<3>>, v |-> <<0, 2, 0>>]>>, as |-> "i2"],
        [t |-> "adv", arrs |-> <<[sh |-> <<3>>, v |-> <<0, 1, 0>>]>>, as |-> "u4"],
        \* index arrays that broadcast against each other and name one element several times
        [t |-> "adv", arrs |-> <<[sh |-> <<1>>, v |-> <<1>>], [sh |-> <<2>>, v |-> <<2, 2>>]>>],
        [t |-> "adv", arrs |-> <<[sh |-> <<2, 1>>, v |-> <<0, 1>>], [sh |-> <<3>>, v |-> <<1, -2, 0>>]>>],
        [t |-> "adv", arrs |-> <<[sh |-> <<2>>, v |-> <<-1, 1>>], [sh |-> <<1>>, v |-> <<0>>]>>, as |-> "list"],
        [t |-> "mask", m |-> [sh |-> sh, v |-> [i \in 1..Size(sh) |-> i % 3 # 0]]],
        [t |-> "mask", m |-> [sh |-> <<sh[1]>>, v |-> [i \in 1..sh[1] |-> i = 1]]]}
GetProgs ==
  UNION {{<< Leaf(1, sh, "A", FALSE), [k |-> "op", h |-> 2, f |-> "getitem", a |-> <<Opnd(1)>>, ix |-> ix] >> : ix \in IdxFor(sh)}
         : sh \in {<<4>>, <<2, 3>>}}
\* x[ix] = value, then L = x : gradient of the old contents (overwritten cells pass nothing) and of the value (repeated
\* indices: last write wins; broadcast values are sum-reduced)
SetProgs ==
  UNION {UNION {{<< Leaf(1, sh, "A", FALSE), Leaf(2, vs, "B", FALSE), [k |-> "op", h |-> 3, f |-> "multiply", a |-> <<Opnd(1), [s |-> Q(2)]>>],
                    [k |-> "setitem", t |-> 3, ix |-> ix, val |-> Opnd(2)] >> :
                   vs \in {v \in {<<>>, <<1>>, IndexShape(ix, sh)} : AssignOK(v, IndexShape(ix, sh))
                                                                       /\ ((ix.t = "basic" /\ AllInts(ix.items, sh)) => v = <<>>)}}
                : ix \in IdxFor(sh)} : sh \in {<<4>>, <<2, 3>>}}
\* ufunc(x, y, out=z, where=mask): masked-out cells pass their gradient to the old contents
WhereOutProgs ==
  {<< Leaf(1, <<2, 3>>, "A", FALSE), Leaf(2, s2, "B", FALSE), Leaf(3, <<2, 3>>, "NZ", FALSE),
      [k |-> "op", h |-> 4, f |-> "multiply", a |-> <<Opnd(3), [s |-> Q(3)]>>],
      [k |-> "uout", f |-> f, a |-> <<Opnd(1), Opnd(2)>>, out |-> 4, where |-> m] >> :
     f \in {"add", "multiply", "maximum"}, s2 \in {<<2, 3>>, <<3>>, <<>>},
     m \in {[sh |-> <<2, 3>>, v |-> <<TRUE, FALSE, TRUE, FALSE, FALSE, TRUE>>], [sh |-> <<3>>, v |-> <<TRUE, FALSE, TRUE>>],
            [sh |-> <<2, 1>>, v |-> <<FALSE, TRUE>>], [sh |-> <<>>, v |-> <<FALSE>>]}}
MoveProgs ==
  {<< Leaf(1, <<2, 3>>, "A", FALSE), s >> :
     s \in {[k |-> "op", h |-> 2, f |-> "reshape", a |-> <<Opnd(1)>>, sh |-> <<3, 2>>],
            [k |-> "op", h |-> 2, f |-> "reshape", a |-> <<Opnd(1)>>, sh |-> <<-1>>],
            [k |-> "op", h |-> 2, f |-> "transpose", a |-> <<Opnd(1)>>],
            [k |-> "op", h |-> 2, f |-> "transpose", a |-> <<Opnd(1)>>, axes |-> <<1, 0>>],
            [k |-> "op", h |-> 2, f |-> "T", a |-> <<Opnd(1)>>],
            [k |-> "op", h |-> 2, f |-> "swapaxes", a |-> <<Opnd(1)>>, a1 |-> 0, a2 |-> -1],
            [k |-> "op", h |-> 2, f |-> "moveaxis", a |-> <<Opnd(1)>>, src |-> <<0>>, dst |-> <<-1>>],
            [k |-> "op", h |-> 2, f |-> "expand_dims", a |-> <<Opnd(1)>>, axis |-> 1],
            [k |-> "op", h |-> 2, f |-> "ravel", a |-> <<Opnd(1)>>],
            [k |-> "op", h |-> 2, f |-> "flatten", a |-> <<Opnd(1)>>],
            [k |-> "op", h |-> 2, f |-> "broadcast_to", a |-> <<Opnd(1)>>, sh |-> <<2, 2, 3>>],
            [k |-> "op", h |-> 2, f |-> "repeat", a |-> <<Opnd(1)>>, r |-> 2, axis |-> 0],
            [k |-> "op", h |-> 2, f |-> "repeat", a |-> <<Opnd(1)>>, r |-> 3, axis |-> -1],
            [k |-> "op", h |-> 2, f |-> "roll", a |-> <<Opnd(1)>>, shift |-> 1, axis |-> 1],
            [k |-> "op", h |-> 2, f |-> "roll", a |-> <<Opnd(1)>>, shift |-> -2, axis |-> 0],
            [k |-> "op", h |-> 2, f |-> "concatenate", a |-> <<Opnd(1), Opnd(1)>>, axis |-> 0],
            [k |-> "op", h |-> 2, f |-> "concatenate", a |-> <<Opnd(1), Opnd(1), Opnd(1)>>, axis |-> -1],
            [k |-> "op", h |-> 2, f |-> "stack", a |-> <<Opnd(1), Opnd(1)>>, axis |-> 0],
            [k |-> "op", h |-> 2, f |-> "stack", a |-> <<Opnd(1), Opnd(1)>>, axis |-> -1],
            [k |-> "op", h |-> 2, f |-> "where", a |-> <<Opnd(1), [s |-> Q(9)]>>, cond |-> [sh |-> <<3>>, v |-> <<TRUE, FALSE, TRUE>>]],
            [k |-> "op", h |-> 2, f |-> "where", a |-> <<Opnd(1), Opnd(1)>>, cond |-> [sh |-> <<2, 1>>, v |-> <<FALSE, TRUE>>]],
            \* the condition spelled as a 0/1 array of an integer / float dtype
            [k |-> "op", h |-> 2, f |-> "where", a |-> <<Opnd(1), [s |-> Q(9)]>>, cond |-> [sh |-> <<3>>, v |-> <<TRUE, FALSE, TRUE>>], cs |-> "i8"],
            [k |-> "op", h |-> 2, f |-> "where", a |-> <<[s |-> Q(9)], Opnd(1)>>, cond |-> [sh |-> <<2, 1>>, v |-> <<FALSE, TRUE>>], cs |-> "i1"],
            [k |-> "op", h |-> 2, f |-> "where", a |-> <<[arr |-> [sh |-> <<3>>, v |-> Vec(3, "B")]], Opnd(1)>>, cond |-> [sh |-> <<3>>, v |-> <<TRUE, TRUE, FALSE>>], cs |-> "f8"]}}
  \* broadcast_to stretching inner / several / leading axes of length 1
  \cup {<< Leaf(1, c[1], "A", FALSE), [k |-> "op", h |-> 2, f |-> "broadcast_to", a |-> <<Opnd(1)>>, sh |-> c[2]] >> :
          c \in {<<<<3, 1>>, <<3, 4>>>>, <<<<2, 1, 3>>, <<2, 2, 3>>>>, <<<<1, 3>>, <<2, 3>>>>, <<<<3, 1>>, <<2, 3, 2>>>>,
                 <<<<1, 2, 1>>, <<2, 2, 3>>>>, <<<<>>, <<2, 2>>>>, <<<<1>>, <<3>>>>}}
  \* atleast_kd where it really adds axes (a request that changes nothing hands back the operand: known finding F-C04-1)
  \cup {<< Leaf(1, c[1], "A", FALSE), [k |-> "op", h |-> 2, f |-> "atleast", a |-> <<Opnd(1)>>, nd |-> c[2]] >> :
          c \in {<<<<>>, 1>>, <<<<>>, 2>>, <<<<>>, 3>>, <<<<3>>, 2>>, <<<<3>>, 3>>, <<<<2, 3>>, 3>>}}
  \cup {<< Leaf(1, <<3, 3>>, "A", FALSE), [k |-> "op", h |-> 2, f |-> "diag", a |-> <<Opnd(1)>>] >>,
        << Leaf(1, <<2, 1, 3>>, "A", FALSE), [k |-> "op", h |-> 2, f |-> "squeeze", a |-> <<Opnd(1)>>] >>,
        << Leaf(1, <<2, 1, 3>>, "A", FALSE), [k |-> "op", h |-> 2, f |-> "squeeze", a |-> <<Opnd(1)>>, axis |-> <<1>>] >>}

\* ---------------------------------------------------------------- activations with kinks (every kink is hit by the fillers)
ActProgs ==
  {<< Leaf(1, sh, "A", FALSE), [k |-> "op", h |-> 2, f |-> "leaky_relu", a |-> <<Opnd(1)>>, p1 |-> sl] >> :
     sh \in {<<3>>, <<2, 3>>, <<>>, <<11>>}, sl \in {H2(1), Q(0), Q(-2), Q(1)}}
  \cup {<< Leaf(1, sh, "A", FALSE), [k |-> "op", h |-> 2, f |-> "hard_tanh", a |-> <<Opnd(1)>>, p1 |-> b[1], p2 |-> b[2]] >> :
          sh \in {<<11>>, <<2, 3>>}, b \in {<<Q(-1), Q(1)>>, <<Q(-3), Q(2)>>, <<H2(-1), H2(5)>>}}
  \cup {<< Leaf(1, sh, "A", FALSE), [k |-> "op", h |-> 2, f |-> "clip", a |-> <<Opnd(1)>>, p1 |-> b[1], p2 |-> b[2]] >> :
          sh \in {<<11>>, <<2, 3>>}, b \in {<<Q(-1), Q(1)>>, <<Q(-3), Q(2)>>, <<H2(-3), H2(3)>>}}
  \cup {<< Leaf(1, sh, nm, FALSE), [k |-> "op", h |-> 2, f |-> "soft_sign", a |-> <<Opnd(1)>>] >> :
          sh \in {<<3>>, <<2, 3>>, <<>>, <<11>>}, nm \in {"A", "B"}}
\* ---------------------------------------------------------------- cumulative operations
CumProgs ==
  UNION {UNION {{<< Leaf(1, sh, nm, FALSE), [k |-> "op", h |-> 2, f |-> f, a |-> <<Opnd(1)>>, kw |-> kw] >> :
                   kw \in {<<>>} \cup {[axis |-> <<ax>>] : ax \in (0..(Len(sh) - 1)) \cup {-1 : x \in 1..Len(sh)}},
                   nm \in {"A", "NZ"}}
                : sh \in {<<4>>, <<2, 3>>, <<>>, <<2, 1, 2>>}} : f \in {"cumsum", "cumprod"}}
  \* cumprod with one zero and with several zeros per lane
  \cup {<< [k |-> "leaf", h |-> 1, sh |-> <<2, 3>>, v |-> vv, const |-> FALSE],
           [k |-> "op", h |-> 2, f |-> "cumprod", a |-> <<Opnd(1)>>, kw |-> kw] >> :
          vv \in {<<Q(2), Q(0), Q(3), Q(-1), Q(4), Q(2)>>, <<Q(0), Q(0), Q(3), Q(-1), Q(0), Q(2)>>, <<Q(0), Q(0), Q(0), Q(1), Q(2), Q(3)>>,
                  <<Q(3), Q(2), Q(0), Q(0), Q(2), Q(3)>>},
          kw \in {<<>>, [axis |-> <<0>>], [axis |-> <<1>>]}}
\* ---------------------------------------------------------------- n-ary sequence operations
SeqProgs ==
  {<< Leaf(1, p[1], "A", k[1]), Leaf(2, p[2], "B", k[2]), Leaf(3, p[3], "NZ", FALSE),
      [k |-> "op", h |-> 4, f |-> f, a |-> os] >> :
     f \in {"addseq", "mulseq"}, k \in Kinds2,
     p \in {<<<<3>>, <<3>>, <<3>>>>, <<<<2, 3>>, <<3>>, <<>>>>, <<<<2, 1>>, <<1, 3>>, <<2, 3>>>>},
     os \in {<<Opnd(1), Opnd(2), Opnd(3)>>, <<Opnd(1), Opnd(2)>>, <<Opnd(3), Opnd(1), Opnd(3), Opnd(2)>>, <<Opnd(1), [s |-> Q(2)], Opnd(2)>>}}
\* ---------------------------------------------------------------- einsum (labels are integers: 0 = 'a', 1 = 'b', ...)
EinProgs ==
  {<< Leaf(1, c.sh[1], "A", FALSE), Leaf(2, c.sh[2], "B", k), [k |-> "op", h |-> 3, f |-> "einsum", a |-> c.a, subs |-> c.subs, out |-> c.out] >> :
     k \in BOOLEAN,
     c \in {[sh |-> <<<<2, 3>>, <<3, 2>>>>, a |-> <<Opnd(1), Opnd(2)>>, subs |-> <<<<0, 1>>, <<1, 2>>>>, out |-> <<0, 2>>],     \* ij,jk->ik
            [sh |-> <<<<2, 3>>, <<3, 2>>>>, a |-> <<Opnd(1), Opnd(2)>>, subs |-> <<<<0, 1>>, <<1, 2>>>>, out |-> <<2, 0>>],     \* ij,jk->ki
            [sh |-> <<<<2, 3>>, <<2, 3>>>>, a |-> <<Opnd(1), Opnd(2)>>, subs |-> <<<<0, 1>>, <<0, 1>>>>, out |-> <<>>],         \* ij,ij->
            [sh |-> <<<<2, 3>>, <<2, 3>>>>, a |-> <<Opnd(1), Opnd(2)>>, subs |-> <<<<0, 1>>, <<0, 1>>>>, out |-> <<0>>],        \* ij,ij->i
            [sh |-> <<<<3>>, <<3>>>>, a |-> <<Opnd(1), Opnd(2)>>, subs |-> <<<<0>>, <<0>>>>, out |-> <<>>],                     \* i,i->
            [sh |-> <<<<3>>, <<2>>>>, a |-> <<Opnd(1), Opnd(2)>>, subs |-> <<<<0>>, <<1>>>>, out |-> <<0, 1>>],                 \* i,j->ij
            [sh |-> <<<<3>>, <<2>>>>, a |-> <<Opnd(1), Opnd(2)>>, subs |-> <<<<0>>, <<1>>>>, out |-> <<1, 0>>],                 \* i,j->ji
            [sh |-> <<<<2, 3>>, <<3>>>>, a |-> <<Opnd(1), Opnd(2)>>, subs |-> <<<<0, 1>>, <<1>>>>, out |-> <<0>>],              \* ij,j->i
            [sh |-> <<<<2, 2>>, <<2>>>>, a |-> <<Opnd(1), Opnd(2)>>, subs |-> <<<<0, 0>>, <<0>>>>, out |-> <<0>>],              \* ii,i->i
            [sh |-> <<<<2, 2>>, <<2>>>>, a |-> <<Opnd(1), Opnd(2)>>, subs |-> <<<<0, 0>>, <<1>>>>, out |-> <<1>>],              \* ii,j->j  (trace times vector)
            [sh |-> <<<<2, 3>>, <<3>>>>, a |-> <<Opnd(1), Opnd(1)>>, subs |-> <<<<0, 1>>, <<0, 1>>>>, out |-> <<1>>],           \* ij,ij->j  same operand twice
            [sh |-> <<<<2, 2>>, <<3>>>>, a |-> <<Opnd(1), Opnd(1)>>, subs |-> <<<<0, 1>>, <<1, 0>>>>, out |-> <<>>],            \* ij,ji->   same operand twice
            [sh |-> <<<<2, 3>>, <<3>>>>, a |-> <<Opnd(1), Opnd(2), Opnd(2)>>, subs |-> <<<<0, 1>>, <<1>>, <<1>>>>, out |-> <<0>>], \* ij,j,j->i
            [sh |-> <<<<2, 3>>, <<3>>>>, a |-> <<Opnd(1)>>, subs |-> <<<<0, 1>>>>, out |-> <<0>>],                              \* ij->i
            [sh |-> <<<<2, 3>>, <<3>>>>, a |-> <<Opnd(1)>>, subs |-> <<<<0, 1>>>>, out |-> <<>>],                               \* ij->
            [sh |-> <<<<3, 3>>, <<3>>>>, a |-> <<Opnd(1)>>, subs |-> <<<<0, 0>>>>, out |-> <<>>],                               \* ii->   (trace)
            [sh |-> <<<<2, 1, 3>>, <<3, 2>>>>, a |-> <<Opnd(1), Opnd(2)>>, subs |-> <<<<0, 1, 2>>, <<2, 3>>>>, out |-> <<0, 3>>],   \* ijk,kl->il (sums a length-1 axis)
            \* axes of length 1 broadcast against longer axes under the same label - also on a traced operand
            [sh |-> <<<<1, 1>>, <<3>>>>, a |-> <<Opnd(1), Opnd(2)>>, subs |-> <<<<0, 0>>, <<0>>>>, out |-> <<0>>],              \* ii,i->i   a:(1,1)
            [sh |-> <<<<1, 1>>, <<3>>>>, a |-> <<Opnd(1), Opnd(2)>>, subs |-> <<<<0, 0>>, <<0>>>>, out |-> <<>>],               \* ii,i->
            [sh |-> <<<<1, 2, 2>>, <<2>>>>, a |-> <<Opnd(1), Opnd(2)>>, subs |-> <<<<0, 1, 1>>, <<0>>>>, out |-> <<0>>],        \* bii,b->b  x:(1,2,2)
            [sh |-> <<<<2, 2>>, <<1>>>>, a |-> <<Opnd(1), Opnd(2)>>, subs |-> <<<<0, 0>>, <<0>>>>, out |-> <<0>>],              \* ii,i->i   b:(1,)
            [sh |-> <<<<1, 3>>, <<2, 3>>>>, a |-> <<Opnd(1), Opnd(2)>>, subs |-> <<<<0, 1>>, <<0, 1>>>>, out |-> <<0>>],        \* ij,ij->i  a:(1,3)
            [sh |-> <<<<2, 1>>, <<2, 3>>>>, a |-> <<Opnd(1), Opnd(2)>>, subs |-> <<<<0, 1>>, <<0, 1>>>>, out |-> <<>>],         \* ij,ij->   a:(2,1)
            \* a non-constant tensor together with its own ndarray (x.data: the stop-gradient idiom)
            [sh |-> <<<<2, 3>>, <<3>>>>, a |-> <<Opnd(1), [hd |-> 1]>>, subs |-> <<<<0, 1>>, <<0, 1>>>>, out |-> <<>>],         \* ij,ij->   x, x.data
            [sh |-> <<<<3>>, <<3>>>>, a |-> <<Opnd(1), Opnd(2), [hd |-> 1]>>, subs |-> <<<<0>>, <<0>>, <<0>>>>, out |-> <<>>],  \* i,i,i->   x, w, x.data
            [sh |-> <<<<2, 2>>, <<3>>>>, a |-> <<[hd |-> 1], Opnd(1)>>, subs |-> <<<<0, 1>>, <<1, 0>>>>, out |-> <<0>>]}}       \* ij,ji->i  x.data, x
\* ---------------------------------------------------------------- convolution and pooling (valid configurations only; C16 decides validity)
ConvConfigs ==
  {[x |-> <<1, 1, 5>>, w |-> <<1, 1, 2>>, st |-> <<1>>, pd |-> <<0>>, dl |-> <<1>>],
   [x |-> <<2, 2, 5>>, w |-> <<2, 2, 3>>, st |-> <<2>>, pd |-> <<0>>, dl |-> <<1>>],
   [x |-> <<1, 2, 4>>, w |-> <<3, 2, 2>>, st |-> <<1>>, pd |-> <<1>>, dl |-> <<2>>],
   [x |-> <<1, 1, 6>>, w |-> <<1, 1, 2>>, st |-> <<3>>, pd |-> <<1>>, dl |-> <<1>>],
   [x |-> <<1, 1, 3, 3>>, w |-> <<1, 1, 2, 2>>, st |-> <<1, 1>>, pd |-> <<0, 0>>, dl |-> <<1, 1>>],
   [x |-> <<1, 2, 3, 5>>, w |-> <<2, 2, 2, 2>>, st |-> <<1, 2>>, pd |-> <<0, 1>>, dl |-> <<1, 2>>],
   [x |-> <<2, 1, 5, 3>>, w |-> <<1, 1, 2, 3>>, st |-> <<2, 1>>, pd |-> <<1, 0>>, dl |-> <<2, 1>>]}
\* every configuration tiles the padded data exactly (C16's validity predicate); TLC checks this when the module is loaded
ASSUME \A c \in ConvConfigs : \A j \in 1..(Len(c.x) - 2) : ConvValidDim(c.x[j + 2], c.w[j + 2], c.st[j], c.pd[j], c.dl[j])
ConvProgs ==
  {<< Leaf(1, c.x, "A", k[1]), Leaf(2, c.w, "B", k[2]),
      [k |-> "op", h |-> 3, f |-> "conv", a |-> <<Opnd(1), Opnd(2)>>, stride |-> c.st, pad |-> c.pd, dil |-> c.dl] >> :
     k \in Kinds2, c \in ConvConfigs}
PoolProgs ==
  {<< Leaf(1, c.x, "D", FALSE), [k |-> "op", h |-> 2, f |-> "maxpool", a |-> <<Opnd(1)>>, pool |-> c.p, stride |-> c.st] >> :
     c \in {[x |-> <<6>>, p |-> <<2>>, st |-> <<2>>], [x |-> <<5>>, p |-> <<3>>, st |-> <<1>>], [x |-> <<2, 6>>, p |-> <<2>>, st |-> <<2>>],
            [x |-> <<2, 5>>, p |-> <<3>>, st |-> <<2>>], [x |-> <<3, 4>>, p |-> <<2, 2>>, st |-> <<1, 2>>],
            [x |-> <<2, 3, 3>>, p |-> <<2, 2>>, st |-> <<1, 1>>], [x |-> <<1, 2, 4, 4>>, p |-> <<2, 2>>, st |-> <<2, 2>>],
            [x |-> <<4, 3>>, p |-> <<3, 1>>, st |-> <<1, 2>>]}}
  \* overlapping windows sharing the maximum, and a decreasing ramp (the maximum is the first element of every window)
  \cup {<< [k |-> "leaf", h |-> 1, sh |-> <<5>>, v |-> vv, const |-> FALSE],
           [k |-> "op", h |-> 2, f |-> "maxpool", a |-> <<Opnd(1)>>, pool |-> <<3>>, stride |-> <<1>>] >> :
          vv \in {<<Q(1), Q(2), Q(9), Q(3), Q(4)>>, <<Q(5), Q(4), Q(3), Q(2), Q(1)>>, <<Q(1), Q(7), Q(2), Q(8), Q(3)>>}}
\* ---------------------------------------------------------------- piecewise-linear losses (thresholds hit exactly)
LossProgs ==
  {<< Leaf(1, sh, "A", k[1]), Leaf(2, sh, "B", k[2]),
      [k |-> "op", h |-> 3, f |-> "margin_ranking", a |-> <<Opnd(1), Opnd(2)>>, y |-> y, margin |-> m] >> :
     k \in Kinds2, m \in {Q(1), Q(0), H2(1), Q(3)},
     sh \in {<<4>>, <<2, 3>>}, y \in {[sh |-> <<>>, v |-> <<Q(1)>>], [sh |-> <<>>, v |-> <<Q(-1)>>]}}
  \cup {<< Leaf(1, <<4>>, "A", FALSE), Leaf(2, <<4>>, "B", FALSE),
           [k |-> "op", h |-> 3, f |-> "margin_ranking", a |-> <<Opnd(1), Opnd(2)>>,
            y |-> [sh |-> <<4>>, v |-> <<Q(1), Q(-1), Q(-1), Q(1)>>], margin |-> m] >> : m \in {Q(1), H2(3)}}
  \cup UNION {{<< Leaf(1, sh, nm, FALSE), [k |-> "op", h |-> 2, f |-> "multiclass_hinge", a |-> <<Opnd(1)>>, y |-> y, hinge |-> hg] >> :
                 nm \in {"A", "B"}, hg \in {Q(1), Q(2), H2(1), Q(0)},
                 y \in {[i \in 1..sh[1] |-> (i * 2) % sh[2]], [i \in 1..sh[1] |-> 0]}}
              : sh \in {<<3, 3>>, <<2, 4>>, <<1, 2>>}}

\* ---------------------------------------------------------------- in-place updates through view chains, C- and Fortran-ordered
\* bases: leaf ; [scale: so that the base is an intermediate] ; view chain ; in-place update through the last view ; backward(base)
LeafO(h, sh, name, ord) == IF ord = "F" THEN [k |-> "leaf", h |-> h, sh |-> sh, v |-> Vec(Size(sh), name), const |-> FALSE, order |-> "F"]
                           ELSE Leaf(h, sh, name, FALSE)
Chains(b) ==     \* view chains starting at handle b; each a sequence of statements creating handles b+1, b+2, ...
  {<< [k |-> "op", h |-> b + 1, f |-> "T", a |-> <<Opnd(b)>>], [k |-> "op", h |-> b + 2, f |-> "reshape", a |-> <<Opnd(b + 1)>>, sh |-> <<-1>>] >>,
   << [k |-> "op", h |-> b + 1, f |-> "reshape", a |-> <<Opnd(b)>>, sh |-> <<-1>>] >>,
   << [k |-> "op", h |-> b + 1, f |-> "T", a |-> <<Opnd(b)>>] >>,
   << [k |-> "op", h |-> b + 1, f |-> "getitem", a |-> <<Opnd(b)>>, ix |-> Basic(<<Full, SL(FALSE, 1, TRUE, 0, TRUE, 1)>>)] >>,
   << [k |-> "op", h |-> b + 1, f |-> "T", a |-> <<Opnd(b)>>],
      [k |-> "op", h |-> b + 2, f |-> "getitem", a |-> <<Opnd(b + 1)>>, ix |-> Basic(<<IntI(-1)>>)] >>}
\* .shape assigned on a view of a view, then another in-place update somewhere in the family
ShapeThenUpdate ==
  {<< Leaf(1, <<8>>, "NZ", FALSE),
      [k |-> "op", h |-> 2, f |-> "getitem", a |-> <<Opnd(1)>>, ix |-> Basic(<<c[1]>>)],
      [k |-> "op", h |-> 3, f |-> "getitem", a |-> <<Opnd(2)>>, ix |-> Basic(<<c[2]>>)],
      [k |-> "setshape", t |-> 3, sh |-> <<2, 3>>],
      upd,
      [k |-> "op", h |-> 4, f |-> "multiply", a |-> <<Opnd(3), Opnd(3)>>] >> :
     c \in {<<SL(TRUE, 0, TRUE, 0, FALSE, -1), SL(FALSE, 1, FALSE, 7, TRUE, 1)>>,      \* x[::-1][1:7]
            <<SL(FALSE, 1, FALSE, 7, TRUE, 1), SL(TRUE, 0, TRUE, 0, FALSE, -1)>>,      \* x[1:7][::-1]
            <<SL(FALSE, 2, TRUE, 0, TRUE, 1), Full>>},                                  \* x[2:][:]
     upd \in {[k |-> "setitem", t |-> 1, ix |-> Basic(<<SL(FALSE, 3, FALSE, 6, TRUE, 1)>>), val |-> [s |-> Q(-1)]],
              [k |-> "setitem", t |-> 3, ix |-> Basic(<<IntI(0), SL(FALSE, 1, TRUE, 0, TRUE, 1)>>), val |-> [s |-> Q(7)]],
              [k |-> "aug", t |-> 2, f |-> "multiply", val |-> [s |-> Q(2)]]}}
\* a view whose constant flag was given explicitly and differs from its base's; an in-place update through it (or through the
\* base) must leave every tensor's flag as it was
FlagProgs ==
  {<< Leaf(1, <<2, 3>>, "NZ", bc),
      IF vf = "reshape" THEN [k |-> "op", h |-> 2, f |-> vf, a |-> <<Opnd(1)>>, kw |-> [constant |-> IF bc THEN "false" ELSE "true"], sh |-> <<3, 2>>]
      ELSE [k |-> "op", h |-> 2, f |-> vf, a |-> <<Opnd(1)>>, kw |-> [constant |-> IF bc THEN "false" ELSE "true"], a1 |-> 0, a2 |-> 1],
      upd,
      [k |-> "op", h |-> 3, f |-> "multiply", a |-> <<Opnd(1), [s |-> Q(2)]>>] >> :
     bc \in BOOLEAN, vf \in {"reshape", "swapaxes"},
     upd \in {[k |-> "setitem", t |-> 2, ix |-> Basic(<<IntI(0)>>), val |-> [s |-> Q(7)]],
              [k |-> "aug", t |-> 2, f |-> "multiply", val |-> [s |-> Q(2)]],
              [k |-> "setitem", t |-> 1, ix |-> Basic(<<IntI(1)>>), val |-> [s |-> Q(-1)]],
              [k |-> "uout", f |-> "negative", a |-> <<Opnd(2)>>, out |-> 2, where |-> [sh |-> <<>>, v |-> <<TRUE>>]],
              \* the mask spelled as the Python bool False: nothing is computed, every tensor keeps its values
              [k |-> "uout", f |-> "negative", a |-> <<Opnd(1)>>, out |-> 1, where |-> [sh |-> <<>>, v |-> <<FALSE>>], wsp |-> "py"],
              [k |-> "uout", f |-> "multiply", a |-> <<Opnd(1), [s |-> Q(3)]>>, out |-> 1, where |-> [sh |-> <<>>, v |-> <<FALSE>>], wsp |-> "py"]}}
InPlaceProgs ==
  UNION {{<< LeafO(1, <<2, 3>>, "NZ", ord) >> \o ch \o
            << IF upd = "aug" THEN [k |-> "aug", t |-> 1 + Len(ch), f |-> "multiply", val |-> Opnd(1 + Len(ch))]
               ELSE IF upd = "augs" THEN [k |-> "aug", t |-> 1 + Len(ch), f |-> "add", val |-> [s |-> Q(3)]]
               ELSE [k |-> "setitem", t |-> 1 + Len(ch), ix |-> Basic(<<[t |-> "ell"]>>), val |-> [s |-> Q(5)]],
               [k |-> "op", h |-> 2 + Len(ch), f |-> "multiply", a |-> <<Opnd(1), Opnd(1)>>] >>
            : upd \in {"aug", "augs", "set"}, ch \in Chains(1)} : ord \in {"C", "F"}}

Progs == CASE Group = "binary" -> BinProgs [] Group = "unary" -> UnProgs [] Group = "reduce" -> RedProgs
           [] Group = "matmul" -> MatProgs \cup MultiMatProgs [] Group = "wheremask" -> WhereMaskProgs [] Group = "getitem" -> GetProgs [] Group = "setitem" -> SetProgs
           [] Group = "whereout" -> WhereOutProgs [] Group = "move" -> MoveProgs
           [] Group = "activation" -> ActProgs [] Group = "cumulative" -> CumProgs [] Group = "sequence" -> SeqProgs
           [] Group = "einsum" -> EinProgs [] Group = "conv" -> ConvProgs [] Group = "maxpool" -> PoolProgs
           [] Group = "loss" -> LossProgs [] Group = "inplace" -> InPlaceProgs \cup ShapeThenUpdate \cup FlagProgs

Init == cellprog \in Progs
Next == UNCHANGED cellprog
Spec == Init /\ [][Next]_vars
Emit == PrintT(<<"BEHAVIOUR", ToJson(Finish(cellprog))>>)
=============================================================================

--------------------------- MODULE TraceContext ---------------------------
(* code -> spec for C15: scope events recorded by the guarded hook in        *)
(* mygrad._utils.ContextTracker / turn_memory_guarding_* while the           *)
(* repository's own tests (or any program) run are validated against         *)
(* Context.tla.  One trace per test; a batch per TLC run.  Every event is    *)
(*   [k: "enter"|"exit"|"turn", m, on, depth, track, guard]                  *)
(* (depth = the manager's depth counter, track/guard = the two process-wide  *)
(* switches, all AFTER the event).  The step is the specification's own      *)
(* action (Enter / Exit / Turn); the logged values must equal the successor   *)
(* state.  A trace is rejected at the first event no action explains.        *)
EXTENDS Context, IOUtils, TLCExt

Batch == JsonDeserialize(IOEnv.TRACE_FILE)
Traces == Batch.traces

VARIABLES tid, l, verdict
tvars == <<vars, tid, l, verdict>>

TInit == /\ Init
         /\ tid \in 1..Len(Traces)
         /\ l = 1
         /\ verdict = "ok"

StepOf(e) ==
  CASE e.k = "enter" -> Enter(e.m, "ctx")
    [] e.k = "exit"  -> stack # <<>> /\ stack[Len(stack)].m = e.m /\ Exit(FALSE)      \* scopes close innermost-first
    [] e.k = "turn"  -> Turn(e.on)
Match(e) == /\ g'.track = e.track /\ g'.guard = e.guard
            /\ (e.k # "turn" => depth'[e.m] = e.depth)

Accept == /\ verdict = "ok" /\ l <= Len(Traces[tid])
          /\ LET e == Traces[tid][l] IN StepOf(e) /\ Match(e)
          /\ l' = l + 1 /\ UNCHANGED <<tid, verdict>>
          /\ (l = Len(Traces[tid]) => PrintT(<<"VERDICT", tid, "ok", l>>))
Reject == /\ verdict = "ok" /\ l <= Len(Traces[tid])
          /\ ~ENABLED (LET e == Traces[tid][l] IN StepOf(e) /\ Match(e))
          /\ verdict' = "rejected" /\ UNCHANGED <<vars, tid, l>>
          /\ PrintT(<<"VERDICT", tid, "rejected", l>>)
          /\ PrintT(<<"EXPECTED-STATE", tid, l, g, depth>>)
TNext == Accept \/ Reject
TSpec == TInit /\ [][TNext]_tvars
\* the specification's own invariants are evaluated on every state the recorded executions reach
TDepth == DepthConsistent
TTrack == TrackDefault
=============================================================================

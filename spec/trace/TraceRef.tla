----------------------------- MODULE TraceRef -----------------------------
(* Trace validation: executions recorded from the real MyGrad (and from a   *)
(* NumPy twin executing the same statements) are checked line by line        *)
(* against the reference specification.  One JVM validates a whole batch;    *)
(* each trace ends with exactly one line                                     *)
(*        <<"VERDICT", tid, clause, line>>                                   *)
(* where clause = "ok" or the first clause (in a fixed order) on which the   *)
(* specification and the recorded observation differ.  Steps are pure        *)
(* operators, so a line is never "not enabled": the verdict is total.        *)
EXTENDS Ref, Json, IOUtils, TLCExt

Input   == JsonDeserialize(IOEnv.TRACE_FILE)
Traces  == Input.traces
Clauses == {Input.clauses[i] : i \in 1..Len(Input.clauses)}

VARIABLES tid, l, st, verdict
vars == <<tid, l, st, verdict>>

OptEq(a, b) == IF a.none \/ b.none THEN a.none = b.none ELSE a.v = b.v

\* pairs i<j of live handles that share memory according to the specification
SharePairs(s) == {<<a, b>> \in Handles(s) \X Handles(s) : a < b /\ Shares(s, a, b)}
ObsPairs(ps) == {<<ps[i][1], ps[i][2]>> : i \in 1..Len(ps)}
\* gradient sharing at the reference level: the gradients of two tensors share memory iff both are
\* available and the tensors belong to one view family whose cells overlap
GradSharePairs(s) == {<<a, b>> \in Handles(s) \X Handles(s) :
                         a < b /\ Shares(s, a, b) /\ Root(s, a) = Root(s, b)
                         /\ ~IsNone(ObsGrad(s, a)) /\ ~IsNone(ObsGrad(s, b))}

On(c) == c \in Clauses

FirstFail(s2, e) ==
  LET o == e.obs hs == Handles(s2) IN
  IF e.exc_np # "none" THEN "np_model_mismatch:exc"   \* NumPy itself rejects a statement the generator thought legal
  ELSE IF e.exc # "none" THEN "exc"     \* (an admissible InvalidBackprop is handled in TNext)
  ELSE IF {h \in 1..Len(o.t) : o.t[h].live} # hs THEN "handles"
  \* --- the NumPy twin first: a disagreement here means the MODEL of NumPy is wrong (machinery error)
  ELSE IF \E h \in hs : o.t[h].np_sh # s2.H[h].sh THEN "np_model_mismatch:shape"
  ELSE IF \E h \in hs : o.t[h].np_v # Vals(s2, h) THEN "np_model_mismatch:val"
  ELSE IF On("np_share") /\ ObsPairs(o.np_share) # SharePairs(s2) THEN "np_model_mismatch:share"
  \* --- property clauses
  ELSE IF On("sh")    /\ \E h \in hs : o.t[h].sh # s2.H[h].sh THEN "sh"
  ELSE IF On("val")   /\ \E h \in hs : o.t[h].v # Vals(s2, h) THEN "val"
  ELSE IF On("const") /\ \E h \in hs : o.t[h].const # s2.H[h].const THEN "const"
  ELSE IF On("share") /\ ObsPairs(o.share) # SharePairs(s2) THEN "share"
  ELSE IF On("base")  /\ \E h \in hs : o.t[h].base # ObsBase(s2, h) THEN "base"
  ELSE IF On("cr")    /\ \E h \in hs : o.t[h].crn # ~HasCr(s2, h) THEN "cr"
  ELSE IF On("grad")  /\ \E h \in hs : ~OptEq(o.t[h].g, ObsGrad(s2, h)) THEN "grad"
  ELSE IF On("gshare") /\ ObsPairs(o.gshare) # GradSharePairs(s2) THEN "gshare"
  ELSE "ok"

Detail(s2, e, v) ==
  IF v = "grad" THEN <<"EXPECTED-GRAD", tid, l, [h \in Handles(s2) |-> ObsGrad(s2, h)]>>
  ELSE IF v \in {"val", "np_model_mismatch:val"} THEN <<"EXPECTED-VAL", tid, l, [h \in Handles(s2) |-> Vals(s2, h)]>>
  ELSE IF v \in {"share", "np_model_mismatch:share"} THEN <<"EXPECTED-SHARE", tid, l, SharePairs(s2)>>
  ELSE IF v = "gshare" THEN <<"EXPECTED-GSHARE", tid, l, GradSharePairs(s2)>>
  ELSE IF v = "base" THEN <<"EXPECTED-BASE", tid, l, [h \in Handles(s2) |-> ObsBase(s2, h)]>>
  ELSE IF v = "cr" THEN <<"EXPECTED-CRNONE", tid, l, [h \in Handles(s2) |-> ~HasCr(s2, h)]>>
  ELSE <<"DETAIL", tid, l, v>>

TInit == tid \in 1..Len(Traces) /\ l = 1 /\ st = InitSt /\ verdict = "ok"
TNext == /\ verdict = "ok" /\ l <= Len(Traces[tid])
         /\ LET e  == Traces[tid][l]
                loud == e.exc = "InvalidBackprop" /\ e.stmt.k = "backward" /\ PartialClear(st, e.stmt.h)
                s2 == IF loud THEN st ELSE Apply(st, e.stmt)
                v  == IF loud THEN "ok" ELSE FirstFail(s2, e)
            IN /\ st' = s2 /\ verdict' = v /\ l' = l + 1 /\ UNCHANGED tid
               /\ (v # "ok" \/ l = Len(Traces[tid])) => PrintT(<<"VERDICT", tid, v, l>>)
               /\ (v # "ok") => PrintT(Detail(s2, e, v))
               /\ (v # "ok" /\ s2.kf # {}) => PrintT(<<"TAINT", tid, s2.kf>>)
TSpec == TInit /\ [][TNext]_vars
=============================================================================

----------------------------- MODULE TraceRef -----------------------------
(* Trace validation: executions recorded from the real MyGrad (and from a   *)
(* NumPy twin executing the same statements) are checked line by line        *)
(* against the reference specification.  One JVM validates a whole batch;    *)
(* each trace ends with exactly one line                                     *)
(*        <<"VERDICT", tid, clause, line>>                                   *)
(* where clause = "ok" or the first clause (in a fixed order) on which the   *)
(* specification and the recorded observation differ.  Steps are pure        *)
(* operators, so a line is never "not enabled": the verdict is total.        *)
EXTENDS Ref, Json, IOUtils, TLCExt

Input   == JsonDeserialize(IOEnv.TRACE_FILE)
Traces  == Input.traces
Clauses == {Input.clauses[i] : i \in 1..Len(Input.clauses)}

VARIABLES tid, l, st, verdict
vars == <<tid, l, st, verdict>>

\* (b is the specification's side; an unspecified gradient matches anything)
OptEq(a, b) == IF IsUnspec(b) THEN TRUE ELSE IF a.none \/ b.none THEN a.none = b.none ELSE a.v = b.v

\* pairs i<j of live handles that share memory according to the specification
SharePairs(s) == {<<a, b>> \in Handles(s) \X Handles(s) : a < b /\ Shares(s, a, b)}
ObsPairs(ps) == {<<ps[i][1], ps[i][2]>> : i \in 1..Len(ps)}
\* gradient sharing at the reference level: the gradients of two tensors share memory iff both are
\* available and the tensors belong to one view family whose cells overlap
GradSharePairs(s) == {<<a, b>> \in Handles(s) \X Handles(s) :
                         a < b /\ Shares(s, a, b) /\ GradSrc(s, a) = GradSrc(s, b)
                         /\ ~IsNone(ObsGrad(s, a)) /\ ~IsNone(ObsGrad(s, b))
                         /\ ~IsUnspec(ObsGrad(s, a)) /\ ~IsUnspec(ObsGrad(s, b))}
\* observed pairs that involve a tensor whose gradient is unspecified are not judged
JudgedPairs(s, ps) == {p \in ps : ~IsUnspec(ObsGrad(s, p[1])) /\ ~IsUnspec(ObsGrad(s, p[2]))}

On(c) == c \in Clauses

FirstFail(s2, e) ==
  LET o == e.obs hs == Handles(s2) IN
  IF e.exc # "none" \/ e.exc_np # "none" THEN "exc"     \* (admissible failures are handled in TNext)
  ELSE IF s2.oor THEN "out_of_model"
  ELSE IF {h \in 1..Len(o.t) : o.t[h].live} # hs THEN "handles"
  \* --- the NumPy twin first: a disagreement here means the MODEL of NumPy is wrong (machinery error)
  ELSE IF \E h \in hs : o.t[h].np_sh # s2.H[h].sh THEN "np_model_mismatch:shape"
  ELSE IF \E h \in hs : o.t[h].np_v # Vals(s2, h) THEN "np_model_mismatch:val"
  ELSE IF On("np_share") /\ ObsPairs(o.np_share) # SharePairs(s2) THEN "np_model_mismatch:share"
  \* --- property clauses
  ELSE IF On("sh")    /\ \E h \in hs : o.t[h].sh # s2.H[h].sh THEN "sh"
  ELSE IF On("val")   /\ \E h \in hs : o.t[h].v # Vals(s2, h) THEN "val"
  \* the dtype of every tensor is the dtype of the NumPy twin's array (C03; a comparison of the two executions)
  ELSE IF On("dtype") /\ \E h \in hs : o.t[h].dt # o.t[h].np_dt THEN "dtype"
  ELSE IF On("const") /\ \E h \in hs : o.t[h].const # s2.H[h].const THEN "const"
  ELSE IF On("share") /\ ObsPairs(o.share) # SharePairs(s2) THEN "share"
  ELSE IF On("base")  /\ \E h \in hs : o.t[h].base # ObsBase(s2, h) THEN "base"
  ELSE IF On("cr")    /\ \E h \in hs : o.t[h].crn # ~HasCr(s2, h) THEN "cr"
  ELSE IF On("grad")  /\ \E h \in hs : ~OptEq(o.t[h].g, ObsGrad(s2, h)) THEN "grad"
  ELSE IF On("gshare") /\ JudgedPairs(s2, ObsPairs(o.gshare)) # GradSharePairs(s2) THEN "gshare"
  ELSE IF On("track") /\ o.track # s2.track THEN "track"
  \* after backward(): the terminal and everything upstream has no creator and no recorded consumers (C07)
  ELSE IF On("released") /\ e.stmt.k = "backward" /\ s2.track /\
          \E h \in hs : ~HasCr(s2, h) /\ s2.N[s2.H[h].node].clrAt = s2.clk /\ o.t[h].nops # 0 THEN "released"
  \* nothing that the caller no longer references stays alive (reference counting alone, C07)
  ELSE IF On("leak") /\ o.leak # 0 THEN "leak"
  \* caller-owned arrays (operands, index objects, seeds) are never modified (C12)
  ELSE IF On("inputs") /\ o.mut # 0 THEN "inputs"
  \* a gradient never aliases any tensor's data (C12)
  ELSE IF On("gdata") /\ o.gdata # <<>> THEN "gdata"
  \* a stored gradient is an ndarray with the tensor's shape and dtype (C14)
  ELSE IF On("gtyped") /\ \E h \in hs : ~o.t[h].g.none /\ (o.t[h].gsh # o.t[h].sh \/ o.t[h].gdt # o.t[h].dt \/ ~o.t[h].gnd)
       THEN "gtyped"
  ELSE "ok"

Detail(s2, e, v) ==
  IF v = "grad" THEN <<"EXPECTED-GRAD", tid, l, [h \in {x \in Handles(s2) : ~OptEq(e.obs.t[x].g, ObsGrad(s2, x))} |->
                                                   [expected |-> ObsGrad(s2, h), observed |-> e.obs.t[h].g]]>>
  ELSE IF v \in {"val", "np_model_mismatch:val"} THEN <<"EXPECTED-VAL", tid, l, [h \in Handles(s2) |-> Vals(s2, h)]>>
  ELSE IF v \in {"share", "np_model_mismatch:share"} THEN <<"EXPECTED-SHARE", tid, l, SharePairs(s2)>>
  ELSE IF v = "gshare" THEN <<"EXPECTED-GSHARE", tid, l, GradSharePairs(s2)>>
  ELSE IF v = "base" THEN <<"EXPECTED-BASE", tid, l, [h \in Handles(s2) |-> ObsBase(s2, h)]>>
  ELSE IF v = "cr" THEN <<"EXPECTED-CRNONE", tid, l, [h \in Handles(s2) |-> ~HasCr(s2, h)]>>
  ELSE <<"DETAIL", tid, l, v>>

\* ------------------------------------------------------------------ failing statements (C13, C09, C15)
InPlaceStmt(s) == s.k \in {"setitem", "aug", "uout", "setshape"}
Target(s) == IF s.k = "uout" THEN s.out ELSE s.t
\* A statement that NumPy itself rejects is a failing statement: it must raise in MyGrad too and leave no trace.
\* MyGrad-only failures that the properties allow:
\*   - InvalidBackprop from a backward through a graph part of which was cleared after it was recorded (C09);
\*   - with tracking off, an in-place update of a tensor whose memory is locked read-only by a live graph (C08/C15).
Admissible(s, e, prev) ==
  \/ e.exc_np # "none" /\ e.exc # "none"
  \/ e.exc = "InvalidBackprop" /\ e.stmt.k = "backward" /\ PartialClear(s, e.stmt.h)
  \/ e.exc = "ValueError" /\ InPlaceStmt(e.stmt) /\ ~s.track /\ ~prev.t[Target(e.stmt)].wr
  \* a seed that does not broadcast to the terminal's shape (C14)
  \/ e.exc = "ValueError" /\ e.stmt.k = "backward" /\ Has(e.stmt, "seed") /\ ~SeedOK(s, e.stmt)
  \* constant=False requested for an integer-valued result (C10)
  \/ e.exc = "ValueError" /\ e.stmt.k = "op" /\ Kw(Kw(e.stmt, "kw", <<>>), "constant", "none") = "false"
       /\ Has(e.stmt, "intres")
\* what a failed statement may leave behind: nothing, except that a failed in-place update may already have
\* dropped the (stale) gradient of its target's family
FailStates(s, stmt) ==
  \* (a backward that fails while an un-re-routed consumer is pending is the known finding F-C09-1 becoming manifest,
  \*  e.g. as a RecursionError of the traversal through the cycle it created)
  LET s0 == [s EXCEPT !.clk = @ + 1, !.kf = IF stmt.k = "backward" /\ s.pend # {} THEN @ \cup {"F-C09-1"} ELSE @] IN
  IF InPlaceStmt(stmt) /\ s.track
  THEN LET r == Root(s, Target(stmt)) IN {s0, [s0 EXCEPT !.g[r] = None], [s0 EXCEPT !.H[Target(stmt)].gc = 0]}
  ELSE IF stmt.k = "backward" /\ s.track /\ ~s.H[stmt.h].const
  \* a rejected seed: no gradient is written, but the traversal has already dropped the stale gradients upstream
  \* (dropped handles included: a tensor the program no longer names may still be the base a live view reads its gradient from)
  THEN LET vis == {h \in AllH(s) : s.H[h].node \in UpDiff(s, s.H[stmt.h].node)} IN
       \* (and the cached view-gradients of the views it passed: a disconnected view then shows nothing)
       {s0, [s0 EXCEPT !.g = [h \in DOMAIN @ |-> IF h \in vis /\ s.H[h].base = 0 THEN None ELSE @[h]],
                       !.H = [h \in DOMAIN @ |-> IF h \in vis /\ s.H[h].base # 0 THEN [@[h] EXCEPT !.gc = 0] ELSE @[h]]]}
  ELSE {s0}

TInit == tid \in 1..Len(Traces) /\ l = 1 /\ st = InitSt /\ verdict = "ok"
TNext == /\ verdict = "ok" /\ l <= Len(Traces[tid])
         /\ LET e  == Traces[tid][l]
                prev == IF l > 1 THEN Traces[tid][l - 1].obs ELSE e.obs
                failed == e.exc # "none" \/ e.exc_np # "none"
                e0 == [e EXCEPT !.exc = "none", !.exc_np = "none"]
                cands == IF failed /\ Admissible(st, e, prev) THEN FailStates(st, e.stmt) ELSE {}
                good == {c \in cands : FirstFail(c, e0) = "ok"}
                s2 == IF failed
                      THEN (IF good # {} THEN CHOOSE c \in good : TRUE
                            ELSE IF cands # {} THEN CHOOSE c \in cands : c.g = st.g /\ c.H = st.H
                            ELSE CHOOSE c \in FailStates(st, e.stmt) : c.g = st.g /\ c.H = st.H)
                      ELSE Apply(st, e.stmt)
                loud == e.exc = "InvalidBackprop" /\ cands # {}     \* aborted backward: gradients unspecified, trace ends
                \* a backward that was refused leaves the graph as it was: asking again must be refused again (C09: it
                \* never turns silent); the driver retries the statement once and logs the second outcome
                retryOK == ~(loud /\ Has(e, "retry_exc")) \/ e.retry_exc = "InvalidBackprop"
                v  == IF failed
                      THEN (IF cands = {} THEN "exc" ELSE IF ~retryOK THEN "retry"
                            ELSE IF good # {} \/ loud THEN "ok" ELSE FirstFail(s2, e0))
                      ELSE FirstFail(s2, e)
                last == l = Len(Traces[tid])
            IN /\ st' = s2 /\ verdict' = v /\ l' = l + 1 /\ UNCHANGED tid
               /\ (v # "ok" \/ last) => PrintT(<<"VERDICT", tid, v, l>>)
               /\ (v # "ok") => PrintT(Detail(s2, e, v))
               \* (a consumer that an in-place update failed to re-route - pending F-C09-1 - can close a reference cycle
               \*  through the mutated tensor's new graph: objects that only a cycle collector would free)
               \* KNOWN FINDING F-C08-5: a recorded in-place update whose target array is read-only and is refused with
               \* ValueError although NumPy accepts the statement: the lock tables did not know the (read-only) array - whether
               \* they do depends on object identities left over in them, so the refusal is not even reproducible
               /\ LET roref == e.exc = "ValueError" /\ e.exc_np = "none" /\ InPlaceStmt(e.stmt) /\ st.track
                               /\ ~prev.t[Target(e.stmt)].wr
                      tk == s2.kf \cup (IF v = "leak" /\ s2.pend # {} THEN {"F-C09-1"} ELSE {})
                                  \cup (IF v = "exc" /\ roref THEN {"F-C08-5"} ELSE {}) IN
                  (v # "ok" /\ tk # {}) => PrintT(<<"TAINT", tid, tk>>)
TSpec == TInit /\ [][TNext]_vars
=============================================================================

SPECIFICATION TSpec
CONSTANTS
  MaxLen = 0
  MaxDepth = 100000
  TurnInside = TRUE
  EmitHist = FALSE
INVARIANT TDepth
INVARIANT TTrack
PROPERTY ScopedRestore
PROPERTY EnterSets
PROPERTY DefaultOutside
CHECK_DEADLOCK FALSE

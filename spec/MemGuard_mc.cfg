SPECIFICATION Spec
CONSTANTS
  NA = 4
  NT = 5
  NO = 2
  MaxLen = 0
  EmitHist = FALSE
  Alphabet = {"newarr", "npview", "freeze", "wrap", "op", "view", "fail", "clear", "dropt", "dropa"}
INVARIANT Safe
INVARIANT Restored
INVARIANT NoLeak
INVARIANT CountersSane
CHECK_DEADLOCK FALSE

#!/bin/bash
# run_seeded.sh <seeded-id> <PROP> [tier]: applies the seeded change to a scratch worktree of /repo HEAD and runs a check
# against it (VERIF_REPO_SRC).  Evidence/replays of these experimental runs go to a scratch copy of /verif's output dirs.
id="$1"; prop="$2"; tier="${3:-quick}"
wt=/tmp/seedrun/wt-$id-$prop; mkdir -p /tmp/seedrun; rm -rf "$wt"; git -C /repo worktree prune
git -C /repo worktree add -q --detach "$wt" HEAD || exit 2
( cd "$wt" && git apply /verif/seeded/$id/patch.diff ) || { echo "$id: patch does not apply"; git -C /repo worktree remove --force "$wt"; exit 2; }
out=/tmp/seedrun/$id-$prop.out
# run from a snapshot of /verif's committed + working files so that concurrent edits do not disturb the run
snap=/tmp/seedrun/verif-$id-$prop; rm -rf "$snap"; mkdir -p "$snap"
rsync -a --exclude .git --exclude evidence --exclude replays --exclude seeded /verif/ "$snap"/
( cd "$snap" && VERIF_REPO_SRC=$wt/src VERIF_OUT=/tmp/seedrun/out-$id-$prop ./check $prop --tier $tier > "$out" 2>&1 ); rc=$?
rm -rf "$snap"
nv=$(grep -c '^VIOLATION' "$out")
echo "$id $prop rc=$rc violations=$nv $(grep -m1 -A1 '^VIOLATION' $out | tail -1 | cut -c1-150)"
git -C /repo worktree remove --force "$wt"; rm -rf /tmp/seedrun/out-$id-$prop

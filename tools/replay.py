#!/venv/bin/python
"""replay.py <replay.json> [upto]: re-executes the program of a saved trace-violation replay on the CURRENT tree
(VERIF_REPO_SRC or /repo/src), validates the fresh trace against spec/trace/TraceRef.tla and prints TLC's verdict with the
EXPECTED-* detail lines (what the specification predicted where the implementation differed)."""
import json
import os
import sys
import tempfile

HERE = os.path.dirname(os.path.dirname(os.path.abspath(__file__)))
sys.path.insert(0, HERE)
sys.path.insert(0, os.environ.get("VERIF_REPO_SRC", "/repo/src"))
from harness import tlc  # noqa: E402
from harness.driver import run_program  # noqa: E402

d = json.load(open(sys.argv[1]))
prog = d["program"] if isinstance(d, dict) else d
if len(sys.argv) > 2:
    prog = prog[:int(sys.argv[2])]
clauses = d.get("clauses") if isinstance(d, dict) else None
clauses = clauses or ["val", "sh", "const", "share", "base", "cr", "grad", "gshare", "np_share"]
tr = run_program(prog)
if tr is None:
    sys.exit("program leaves the exact fragment")
for i, s in enumerate(prog, 1):
    print(i, json.dumps(s)[:220], "" if i > len(tr) else ("" if tr[i - 1]["exc"] == "none" else "  !! " + tr[i - 1]["exc"]))
scratch = tempfile.mkdtemp(prefix="verif-replay-")
vv, oo, _ = tlc.validate_batch(os.path.join(tlc.SPEC, "trace", "TraceRef.tla"), os.path.join(tlc.SPEC, "trace", "TraceRef.cfg"),
                               clauses, [tr], scratch, "one")
print("VERDICT", vv)
import re  # noqa: E402
for m in re.finditer(r'<<\s*"(EXPECTED-[A-Z]+|TAINT)"', oo):
    j = oo.find("\n<<", m.start() + 2)
    print(" ".join(oo[m.start(): j if j > 0 else m.start() + 4000].split())[:4000])
if vv[1][0] != "ok" and vv[1][1] >= 1:
    ln = vv[1][1]
    print("observed at", ln, json.dumps(tr[ln - 1]["obs"]["t"])[:3000])
import shutil  # noqa: E402
shutil.rmtree(scratch, ignore_errors=True)

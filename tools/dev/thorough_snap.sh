#!/bin/bash
# runs the thorough tier of the given properties from a snapshot of /verif (so that later edits do not disturb it)
snap=/tmp/thor/verif-snap; rm -rf /tmp/thor; mkdir -p $snap
rsync -a --exclude .git --exclude evidence --exclude replays --exclude seeded /verif/ $snap/
for p in "$@"; do
  s=$(date +%s)
  ( cd $snap && VERIF_OUT=/tmp/thor/out-$p ./check $p --tier thorough > /tmp/thor/$p.log 2>&1 ); rc=$?
  e=$(date +%s)
  echo "$p rc=$rc $((e-s))s viol=$(grep -c ^VIOLATION /tmp/thor/$p.log) $(tail -n 1 /tmp/thor/$p.log | cut -c1-160)"
done

import sys, os, json, tempfile, collections
sys.path.insert(0,'/verif'); sys.path.insert(0, __import__('os').environ.get('VERIF_REPO_SRC', '/repo/src'))
from harness import tlc, replay, interp
for g in ("exp","sqrt"):
    d=tempfile.mkdtemp()
    cfg=os.path.join(d,'g.cfg'); open(cfg,'w').write(f'SPECIFICATION Spec\nCONSTANTS\n  Group = "{g}"\nINVARIANT SoftmaxSumsToOne\nINVARIANT Emit\nCHECK_DEADLOCK FALSE\n')
    rc,o,wall=tlc.run_tlc(os.path.join(tlc.SPEC,'tables','Interp.tla'),cfg,workers=1,timeout=900)
    items,bad=replay.parse_behaviours(o)
    print(g,"rc",rc,"cells",len(items),"bad",bad,tlc.parse_stats(o))
    if rc!=0:
        i=o.find("Error"); print(o[i:i+1500])
    c=collections.Counter()
    for it in items:
        try: r=interp.run_cell(it)
        except Exception as ex: r=("exception",type(ex).__name__,str(ex)[:200])
        c[(it["cell"]["f"], "ok" if r is None else "BAD")]+=1
        if r is not None: print(json.dumps(it["cell"])[:300], r)
    print(c)
it=items[0]; import copy
bad=copy.deepcopy(it); bad["expected"]["grad"][0]=[bad["expected"]["grad"][0][0]+1, bad["expected"]["grad"][0][1]]
print("corrupted:", interp.run_cell(bad))

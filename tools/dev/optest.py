import sys, os, json, tempfile, collections
sys.path.insert(0,'/verif'); sys.path.insert(0, __import__('os').environ.get('VERIF_REPO_SRC', '/repo/src'))
from harness import tlc, replay
g=sys.argv[1]
d=tempfile.mkdtemp()
cfg=os.path.join(d,'g.cfg'); open(cfg,'w').write(f'SPECIFICATION Spec\nCONSTANTS\n  Group = "{g}"\nINVARIANT Emit\nCHECK_DEADLOCK FALSE\n')
rc,o,wall=tlc.run_tlc(os.path.join(tlc.SPEC,'OpTable.tla'),cfg,workers=1,timeout=900)
behs,bad=replay.parse_behaviours(o)
st=tlc.parse_stats(o)
print(g, "rc",rc,"cells",len(behs),"bad",bad,"wall",round(wall,1), st)
if rc!=0:
    i=o.find("Error:"); print(o[i:i+1500])
c=collections.Counter(); shown=0
for b in behs:
    r=replay.compare(b)
    if r is None: c["ok"]+=1; continue
    c[str(r[0])+":"+str(r[1])]+=1
    if shown<4:
        shown+=1; print(json.dumps([e["stmt"] for e in b])[:700]); print("   ->", str(r)[:600])
print(c)

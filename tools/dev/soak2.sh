#!/bin/bash
# soak2.sh <seed0> <n>: every history profile, n programs each, untainted non-ok verdicts listed
for p in c01 c02 c04 c05 c06 c07 c09 c10 c12 c13 c14 c15; do
  echo "=== $p"; /venv/bin/python /tmp/w1/prof.py $p $2 $1 2>&1 | tail -n +2 | grep -v "out_of_model" | cut -c1-260
done

import sys, os, json, tempfile, collections
sys.path.insert(0,'/verif'); sys.path.insert(0,'/repo/src')
from harness import tlc, replay, memguard, checks
L=int(sys.argv[1]); sim=len(sys.argv)>2
d=tempfile.mkdtemp(); cfg=os.path.join(d,"e.cfg")
alpha='{"newarr", "wrap", "view", "op", "inplacefam", "clear", "dropt"}'
checks._mg_cfg(cfg, 7, 9, 6, L, True, ["Safe","Restored","NoLeak","CountersSane","Emit"], alpha)
extra=("-simulate", f"num={sys.argv[2]}", "-depth", str(L+1), "-seed", "5") if sim else ()
rc,o,wall=tlc.run_tlc(os.path.join(tlc.SPEC,"MemGuard.tla"), cfg, workers=1, timeout=1500, extra=extra, heap="8g")
behs,bad=replay.parse_behaviours(o)
print("rc",rc,"behs",len(behs),"bad",bad, round(wall,1), tlc.parse_stats(o))
if rc!=0:
    i=o.find("Error"); print(o[i:i+3000])
c=collections.Counter(); shown=0
for b in behs:
    if not any(e["ev"]["k"]=="inplacefam" for e in b): continue
    r=memguard.compare(b)
    if r is None: c["ok"]+=1; continue
    c[(r[1], r[4])]+=1
    if not r[4] and shown<3:
        shown+=1; print(r[:4]); print("   ", json.dumps([e["ev"] for e in b]))
print(c)

import sys, os, json, tempfile
sys.path.insert(0,'/verif'); sys.path.insert(0,'/repo/src')
from harness import tlc, replay, memguard, checks
import mygrad._utils.lock_management as L
target=json.loads(sys.argv[1])
d=tempfile.mkdtemp(); cfg=os.path.join(d,"e.cfg")
alpha='{"newarr", "wrap", "view", "op", "inplacefam", "clear", "dropt"}'
checks._mg_cfg(cfg, 7, 9, 6, len(target), True, ["Emit"], alpha)
rc,o,wall=tlc.run_tlc(os.path.join(tlc.SPEC,"MemGuard.tla"), cfg, workers=1, timeout=1500, heap="8g")
behs,bad=replay.parse_behaviours(o)
for b in behs:
    if [e["ev"] for e in b]==target:
        import gc; gc.disable()
        w=memguard.World()
        for i,e in enumerate(b,1):
            w.run(e["ev"], e["newa"], e["newt"])
            ob=w.observe(len(e["proj"]["aw"]), len(e["proj"]["tw"]))
            print(i, json.dumps(e["ev"]))
            print("   model", e["proj"]); print("   real ", ob, "counter", dict((id(k)%1000,v) for k,v in []) )
        break

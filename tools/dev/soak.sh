#!/bin/bash
# soak.sh "<props>" "<seeds>": runs quick checks with VERIF_OUT scratch; prints summary lines
for seed in $2; do for p in $1; do echo "$p $seed"; done; done | xargs -P 4 -L 1 bash -c 'p=$0; s=$1; VERIF_OUT=/tmp/w1/soak/out-$p-$s VERIF_SEED=$s /verif/check $p --tier quick > /tmp/w1/soak/$p-$s.log 2>&1; echo "$p seed=$s rc=$? $(grep -c ^VIOLATION /tmp/w1/soak/$p-$s.log) viol; $(grep -o "spec_error[^,]*" /tmp/w1/soak/$p-$s.log | head -1)"'

import sys, json, tempfile, collections, time
sys.path.insert(0,'/verif'); sys.path.insert(0, __import__('os').environ.get('VERIF_REPO_SRC', '/repo/src'))
from harness import tlc, gen, checks
from harness.driver import run_program
prof=sys.argv[1]; n=int(sys.argv[2]); seed0=int(sys.argv[3]) if len(sys.argv)>3 else 0
clauses = (sys.argv[4].split(",") if len(sys.argv)>4 else None) or checks.REF_PROPS.get("C"+prof[1:], {}).get("clauses") or ["val","sh","const","share","base","cr","grad","gshare","np_share"]
progs=[]; traces=[]; fams=collections.Counter()
for sd in range(seed0, seed0+n):
    try: p=gen.gen_program(sd, gen.PROFILES[prof])
    except gen.GenSkip: continue
    tr=run_program(p)
    if tr is None: fams["oom"]+=1; continue
    for s in p:
        if s["k"]=="op": fams[s["f"]]+=1
    progs.append((sd,p)); traces.append(tr)
print(len(traces), dict(fams))
t0=time.time()
d=tempfile.mkdtemp()
v,outs,st=tlc.validate_parallel(tlc.SPEC+"/trace/TraceRef.tla", tlc.SPEC+"/trace/TraceRef.cfg", clauses, traces, d, jobs=16, chunk=max(8,len(traces)//16+1))
c=collections.Counter(x[0] for x in v); print(c, round(time.time()-t0,1))
import re
taint={}
ch=max(8,len(traces)//16+1)
for ci,o in enumerate(outs):
    for m in re.finditer(r'<<"TAINT",\s*(\d+),\s*\{([^}]*)\}>>', o):
        taint[ci*ch+int(m.group(1))-1]=m.group(2)
idx=-1
for (sd,p),(cl,ln) in zip(progs,v):
    idx+=1
    if idx in taint and cl!="ok": c["tainted"]+=1; continue
    if cl not in ("ok",):
        print("seed",sd,cl,ln, json.dumps(p[ln-1])[:300] if ln>=1 else "")
for e in tlc.SPEC_ERRORS[:3]: print(e["tlc"][:600])

print("tainted (known-finding territory):", c["tainted"])

import sys, json
sys.path.insert(0,'/verif'); sys.path.insert(0, __import__('os').environ.get('VERIF_REPO_SRC', '/repo/src'))
from harness import gen
prof=sys.argv[1]; seed=int(sys.argv[2])
p=gen.gen_program(seed, gen.PROFILES[prof])
json.dump({"program":p, "clauses": None}, open(f"/tmp/w1/p_{prof}_{seed}.json","w"))
print(f"/tmp/w1/p_{prof}_{seed}.json")

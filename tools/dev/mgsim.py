import sys, os, json, tempfile, collections
sys.path.insert(0,'/verif'); sys.path.insert(0,'/repo/src')
from harness import tlc, replay, memguard, checks
seed=int(sys.argv[1]); num=int(sys.argv[2])
d=tempfile.mkdtemp(); cfg=os.path.join(d,"sim.cfg")
checks._mg_cfg(cfg, 4, 6, 3, 14, True, ["Emit"], checks.MG_ALPHABET_SIM)
rc,o,wall=tlc.run_tlc(os.path.join(tlc.SPEC,"MemGuard.tla"), cfg, workers=1, timeout=1200, extra=("-simulate", f"num={num}", "-depth","15","-seed",str(seed)))
behs,bad=replay.parse_behaviours(o)
print("rc",rc,"behs",len(behs),"bad",bad, round(wall,1))
if rc!=0:
    i=o.find("Error"); print(o[i:i+800])
c=collections.Counter(); shown=0
for b in behs:
    r=memguard.compare(b)
    if r is None: c["ok"]+=1; continue
    c[(r[1], r[4])]+=1
    if not r[4] and shown<3:
        shown+=1; print(r[:4]); print("   ", json.dumps([e["ev"] for e in b]))
print(c)

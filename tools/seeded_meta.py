#!/usr/bin/env python3
"""Writes seeded/<id>/meta.json for every seeded change (descriptions condensed from the sub-agents' reports)."""
import json, os
HERE = os.path.dirname(os.path.dirname(os.path.abspath(__file__)))
M = {
 "C01-1": ("C01", "Tensor.__pow__ fast path (x**1 -> Positive, x**2 -> Square) also taken for a 0-d non-constant Tensor exponent: the exponent tensor drops out of the graph", "x ** p with p a non-constant 0-d tensor equal to exactly 1.0 or 2.0 (operator spelling only)"),
 "C04-1": ("C04", "Tensor.copy() uses ndarray.copy() (order C) instead of np.copy (order K); the mutated base of an in-place update loses its memory layout", "F-ordered base (e.g. 2*x.T), reshape/ravel view through a transpose, then any in-place update: the view stops sharing memory"),
 "C04-2": ("C04", ".shape setter validates with np.reshape (which may copy) instead of assigning ndarray.shape", "v = x.T; v.shape = (6,): NumPy raises AttributeError, patched MyGrad silently replaces v by a copy"),
 "C04-3": ("C04", "_in_place_op takes the target's constant flag from self instead of the mutant base", "view created with constant= override differing from its base, then an in-place update through that view flips the base's flag"),
 "C05-1": ("C05", "after an in-place op the target's constant flag is only forced back when the target is constant", "ufunc(const, const, out=z) with z non-constant and not an operand: z silently becomes constant, later gradients are lost"),
 "C05-2": ("C05", "restore_old_graph only on ValueError", "an in-place write that fails with IndexError (x[4] = .. on size 4), caught by the program: earlier consumers stay attached to placeholders, gradients miss contributions"),
 "C05-3": ("C05", "ApplyMask.backward_var uses boolean indexing grad[mask]=0 instead of grad*~mask", "ufunc(..., where=mask, out=z) with a mask that broadcasts against the target (shape (3,) on (3,3))"),
 "C06-1": ("C06", "first-contribution copy condition becomes np.shares_memory(backed_grad, grad) (rebased on the F-C06-1 fix)", "an op returning a view of a temporary (vector operand of X @ w, roll, cumsum) contributes first: base.grad does not own its memory, view grads read None / are not views"),
 "C06-2": ("C06", "Tensor.copy() shares the gradient array instead of copying it", "t.copy() after backward(): the copy's grad aliases the original's grad and those of its views"),
 "C06-3": ("C06", "GetItem.backward_var allocates np.zeros(a.shape) (C order) instead of zeros_like(a.data)", "F-ordered base tensor (mg.tensor(arr.T)), first contribution through a slice, reshape-type view chain"),
 "C07-1": ("C07", "gradient clearing in _op decided by `not f.can_return_view` instead of `base is None`", "leaf holding a gradient fed to a view-capable op that returns fresh data (x[[0,2]], einsum, copying reshape, value of setitem): stale .grad survives"),
 "C07-2": ("C07", "null_grad() only drops _view_grad when _clear_view_info", "v = x[:2] upstream of a backward; afterwards v.null_grad() has no effect (cached view-grad still passes the identity check)"),
 "C07-3": ("C07", "view_fn_sequence built from node.tensor._replay_op instead of node.placeholder._replay_op", "in-place update through a view of an intermediate, loss depends only on pre-mutation value, caller drops x and v before backward: reference cycle keeps placeholders alive until a GC pass"),
 "C08-1": ("C08", "failed-forward path releases locks of t.data only (not the bases yielded by unique_arrs_and_bases)", "failing op (shape mismatch) where one input is a view: the base stays read-only / lock count leaks"),
 "C08-2": ("C08", "out= base appended to the release list only when not already present", "mg.multiply(buf[:3], 2.0, out=buf[3:]) then backward/drop: base locked twice, released once"),
 "C08-3": ("C08", "force_lock_tensor_and_creators force-locks the creator's input arrays too", "in-place op whose source is natively read-only (x[...] = ro_arr): on release the read-only array becomes writeable"),
 "C09-1": ("C09", "InvalidBackprop guard only for tensors without creator: `if not var._ops and var._creator is None`", "two graphs share x; L1.backward(); x[...] = 5 (x gets a creator, empty _ops); L2.backward() silently uses new values"),
 "C09-2": ("C09", "make_placeholder_tensor nulls the gradient instead of asserting it is None", "L1.backward() leaves a grad on shared x; x.shape = ... no longer refuses; L2.backward() back-propagates through reshaped x"),
 "C10-1": ("C10", "in-place target's constant flag only restored when constant= is None", "mg.multiply(y, y, out=c_const, constant=False) makes the constant target non-constant"),
 "C10-2": ("C10", "constant flag restore skipped on the where= (ApplyMask) path", "mg.multiply(y, y, where=mask, out=c_const): c becomes non-constant and acquires grad"),
 "C10-3": ("C10", "astype pass-through treats constant=False like None", "c.astype(c.dtype, copy=False, constant=False) on a constant float tensor returns c itself"),
 "C12-1": ("C12", "first-contribution copy condition `backed_grad.base is grad or backed_grad is grad` (rebased on the F-C06-1 fix)", "caller passes backward() a grad that is itself a view, op returns a view of grad, variable gets two contributions: += writes into the caller's buffer; or a view of a temporary stored uncopied: unrelated grads alias"),
 "C12-2": ("C12", "Mean.backward_var divides the incoming gradient in place (grad /= n)", "mean(x, axis).backward(g) scales the caller's g; a shared upstream gradient is corrupted"),
 "C12-3": ("C12", "Tensor.copy() keeps the same gradient buffer (np.asarray instead of np.copy)", "backward, then t.copy(), then in-place edit of either grad"),
 "C13-1": ("C13", "input locks released after a failed forward only if out is None", "failing op with a bad user-supplied out=<ndarray>: inputs stay read-only forever"),
 "C13-2": ("C13", "restore_old_graph only for ValueError/TypeError", "failing in-place update raising IndexError (y[7] = 1.0): graph not restored, gradients lose contributions"),
 "C13-3": ("C13", "restore_old_graph skips leaf views", "leaf view already consumed by an op, then a failing in-place update on it or its base: consumer keeps pointing at the placeholder; damage after the next backward"),
 "C14-1": ("C14", "seed broadcast done into self._grad before validation", "L.backward(g) with non-broadcastable g: error raised but L.grad already written (ones)"),
 "C14-2": ("C14", "first-contribution dtype fix-up only when itemsize is larger (rebased on the F-C06-1 fix)", "op whose output has lower precision than an input (y32 += x64; multiply(s64, h16, dtype=float16)): stored grad has the wrong dtype"),
 "C14-3": ("C14", "GRU br gradient summed with bz's dtype", "GRU with bz and br of different float dtypes"),
 "C15-1": ("C15", "ContextTracker.__exit__ skips the restore when the saved state equals the scope's own enter value", "turn_memory_guarding_* called inside a scope that was entered when the setting already equalled its value"),
 "C15-2": ("C15", "_in_place_op nulls the target's gradient before the tracking-off early return", "tensor holding a gradient is the target of an in-place op inside no_autodiff: loses its gradient"),
 "C15-3": ("C15", "backward(): constant check before the tracking check", "backward() on a constant tensor of a tracked graph, called inside no_autodiff: clears the graph"),
 "C01-2": ("C01", "BroadcastTo.backward_var does its own reduction with grad.reshape((-1,)+a.shape).sum(0)", "broadcast_to stretching an inner axis of length 1 that is preceded by a longer axis ((3,1)->(3,4)): wrong gradient values"),
 "C01-3": ("C01", "max/min backward over all axes writes through out.ravel()[argmax] (a copy for non-C-contiguous data)", "max/min over all elements of a transposed / Fortran-ordered / layout-preserving operand: the path contributes zero gradient"),
 "C02-4": ("C02", "EinSum.backward_var sizes its label map from the variable's own shape (not the maximum over operands)", "einsum with a repeated subscript on an operand whose length-1 axis broadcasts against a longer axis (ii,i->i with a:(1,1)): backward raises ValueError"),
 "C02-5": ("C02", "MaxPoolND.backward_var takes the flat-index offsets from x.strides", "max_pool backward on a non-C-contiguous operand (Fortran-ordered, transposed or strided view): gradient scattered to wrong places / IndexError"),
 "C03-4": ("C03", "dtype of a Python-scalar operand memoised with an untyped lru_cache keyed on the scalar's VALUE", "int/bool tensor combined with 2 after 2.0 (or True / 1 / 1.0) was seen with the same array dtypes: result dtype follows the first call"),
 "C10-4": ("C10", "EinSum's redundant-operand cache keyed on id(v.data) instead of id(v)", "einsum of a non-constant x with a constant operand wrapping the same ndarray (x.data): x.grad doubled"),
 "C12-4": ("C12", "UnView.backward_var does not copy an F-contiguous incoming gradient (np.asfortranarray returns it)", "Fortran-ordered base updated in place through a view, then backward: the stored / passed gradient is zeroed in the view's region"),
 "C13-4": ("C13", "restore_old_graph only walks the base and its direct views", "failing in-place op on a tree with a view chain of depth >= 3: the deepest view's ops stay wired to placeholders, its grad reads None"),
 "C14-4": ("C14", "first-contribution dtype cast removed (relying on the strides test)", "0-d float32/float16 tensor receiving a freshly computed float64 gradient: stored grad is float64"),
 "C16-4": ("C16", "sliding_window_view rejects any step larger than the windowed axis", "valid single-placement configurations with step/stride > axis length (also through conv_nd / max_pool): ValueError"),
 "C04-4": ("C04", ".shape setter swaps the placeholder into base._view_children instead of the direct parent's list", ".shape assigned on a view of a view, then any in-place update in the family: values wrong / ValueError where NumPy succeeds"),
 "C07-5": ("C07", "placeholder._view_children becomes a plain list (strong references) in DuplicatingGraph", "in-place update while a view chain of depth >= 2 hangs off the base and is not consumed: placeholders form a reference cycle, freed only by the cyclic GC"),
 "C08-4": ("C08", "the waiting-list shortcut tests `not _array_counter` instead of `not _array_tracker`", "a view (kept by the user as t.data / a view of an out= target) is waiting for its base and the base is the globally last locked array released: the view stays read-only"),
 "C09-4": ("C09", "Tensor.backward clears the graph in a finally block", "L.backward() raises InvalidBackprop once; a second L.backward() then returns silently"),
 "C11-4": ("C11", "weak-scalar dtype collection only when a Python scalar is among input_vars[1:]", "Python scalar as the LEADING operand (reflected operators, scalar-first calls) with a float32/float16/int8 tensor: float64/int64 result"),
 "C15-4": ("C15", "the stale-view cleanup of _op hoisted before the tracking-off early return", "an op under no_autodiff whose input is a view released by an earlier backward: the input loses its base / its .grad changes"),
 "C17-4": ("C17", "Tensor.__init__ prepends ndmin axes with np.array(data, ndmin=ndmin) (copies)", "Tensor(x, copy=False, ndmin=k) with k > x.ndim no longer shares memory with x"),
 "C18-4": ("C18", "save() normalises path destinations with Path.with_suffix('.npz')", "file names with a dot that do not end in .npz (model.v1): archive written elsewhere / checkpoints overwrite each other"),
 "C05-4": ("C05", "_is_int_array_index only recognises ndarray / list index entries", "x[idx] = b with a repeated integer index spelled as a tuple / integer Tensor: the 'last write wins' masking of the value's gradient is skipped"),
 "C06-4": ("C06", "_op no longer detaches a disconnected view before choosing the base of a new view of it", "view taken from a view that an earlier backward() released: wrong .base (the previous epoch's base), .grad reads None after the next backward"),
 "C07-4": ("C07", "same code change as C06-4, found independently for C07", "repeating t = v[...]; (3*t).sum().backward() on a released view v: the gradient differs between iterations"),
 "C09-3": ("C09", "clear_graph releases one write-lock of the tensor's array per live view child", "partial clear while another live graph still references the array: the array becomes writeable, a NumPy-level write changes the values L.backward() uses"),
 "C02-1": ("C02", "arccsch backward drops the abs(): -g/(x*sqrt(1+x^2))", "arccsch at negative inputs (sign of the gradient flips)"),
 "C02-2": ("C02", "arccos backward masks only x != 1 and uses sqrt((1-x)(1+x))", "arccos at x = -1: the documented zero convention is lost (inf/nan)"),
 "C02-3": ("C02", "Tensor.__pow__ fast path also for a 0-d Tensor exponent", "x ** y with y a non-constant 0-d tensor equal to 1 or 2: y receives no gradient"),
 "C03-1": ("C03", "BinaryUfunc forward drops dtype= when where= is given", "mg.add(a, b, where=mask, dtype=...) returns NumPy's default dtype"),
 "C03-2": ("C03", "Tensor.__pow__ fast path for any one-element array exponent (size == 1 instead of ndim == 0)", "x ** np.array([[2.0]]): result is not broadcast to the higher rank"),
 "C03-3": ("C03", "Ravel forward uses order='K'", "ravel of a transposed / Fortran-ordered operand returns elements in memory order"),
 "C11-1": ("C11", "same code change as C03-2 (operator ** vs mg.power / np.power)", "x ** p with p a single-element array of rank >= 1"),
 "C11-2": ("C11", "__array_ufunc__ for non-differentiable ufuncs raises only when self is non-constant, else converts operands with asarray", "np.floor_divide(const_tensor, nonconst_tensor): silently returns an array"),
 "C11-3": ("C11", "Tensor.moveaxis passes (destination, source)", "t.moveaxis(0, 2) on rank >= 3 differs from mg.moveaxis(t, 0, 2)"),
 "C16-1": ("C16", "conv_nd rejects a configuration only when ALL axes fail to tile", "one axis tiles, the other does not: no ValueError, silently truncated output"),
 "C16-2": ("C16", "sliding_window_view re-packs only Fortran arrays (np.isfortran) instead of every non-C-contiguous array", "transposed (channels-last -> channels-first) or strided input: windows read foreign memory"),
 "C16-3": ("C16", "multiclass_hinge drops the hinge argument (default margin 1 always used)", "hinge != 1"),
 "C17-1": ("C17", "mg.asarray defaults order to 'C'", "mg.asarray(x.T) copies instead of returning the input array"),
 "C17-2": ("C17", "astype pass-through condition `not constant` instead of `constant is None`", "c.astype(c.dtype, copy=False, constant=False) on a constant tensor returns c itself (still constant)"),
 "C17-3": ("C17", "geomspace drops axis=", "mg.geomspace([1,2],[100,200], num=3, axis=-1) has the wrong shape"),
 "C18-1": ("C18", "save() reads tensor._grad instead of tensor.grad", "saving a view tensor whose gradient is derived from its base: gradient not written"),
 "C18-2": ("C18", "save() writes np.ascontiguousarray(data/grad)", "0-d tensors come back with shape (1,)"),
 "C18-3": ("C18", "load() skips backward when the saved gradient is empty", "empty tensor with an (empty) gradient comes back with grad None"),
}
DETECTED_BY = {
 "C01-1": ["C11"], "C01-2": ["C01", "C02"], "C01-3": ["C01", "C02"],
 "C02-1": ["C02"], "C02-2": ["C02"], "C02-3": ["C11"], "C02-4": ["C02"], "C02-5": ["C02", "C01"],
 "C03-1": ["C03"], "C03-2": ["C11"], "C03-3": ["C03"], "C03-4": ["C03"],
 "C04-1": ["C04", "C05"], "C04-2": ["C04", "C13"], "C04-3": ["C04"],
 "C05-1": ["C05"], "C05-2": ["C13", "C05"], "C05-3": ["C05"], "C05-4": ["C05", "C02"],
 "C06-1": ["C06"], "C06-2": ["C12", "C06"], "C06-3": [], "C06-4": ["C06"],
 "C07-1": ["C07"], "C07-2": ["C07"], "C07-3": ["C07"], "C07-4": ["C07"],
 "C08-1": ["C08"], "C08-2": ["C08"], "C08-3": ["C08"],
 "C09-1": ["C09"], "C09-2": [], "C09-3": ["C08"],
 "C10-1": ["C10"], "C10-2": ["C10"], "C10-3": ["C17", "C10"], "C10-4": ["C02", "C10"],
 "C11-1": ["C11"], "C11-2": ["C11"], "C11-3": ["C11"],
 "C12-1": ["C12"], "C12-2": ["C12"], "C12-3": ["C12"], "C12-4": ["C05", "C12"],
 "C13-1": ["C08", "C13"], "C13-2": ["C13"], "C13-3": ["C13"], "C13-4": ["C13"],
 "C14-1": ["C14"], "C14-2": ["C14"], "C14-3": ["C14"], "C14-4": ["C14"],
 "C15-1": ["C15"], "C15-2": ["C15"], "C15-3": ["C15"],
 "C16-1": ["C16"], "C16-2": ["C16"], "C16-3": ["C16"], "C16-4": ["C16"],
 "C17-1": ["C17"], "C17-2": ["C17"], "C17-3": ["C17"],
 "C18-1": ["C18"], "C18-2": ["C18"], "C18-3": ["C18"], "C18-4": ["C18"],
 "C04-4": ["C04", "C05"], "C07-5": ["C07"], "C08-4": ["C08"], "C09-4": ["C09"], "C11-4": ["C11", "C03"], "C15-4": ["C15"], "C17-4": ["C17"],
}
for k, (prop, what, needs) in M.items():
    d = os.path.join(HERE, "seeded", k)
    meta = {"id": k, "breaks_property": prop, "change": what, "needs_to_manifest": needs,
            "origin": "independent sub-agent given only the property text and a scratch worktree",
            "confirmed": "demo.py exits 0 on the clean tree and 1 with patch.diff applied (tools/verify_seeded.sh, scratch worktree under /tmp, removed afterwards); pinned suite green with the patch (sub-agent full run; own run under load showed only Hypothesis DeadlineExceeded flakes)"}
    old = {}
    if os.path.exists(os.path.join(d, "meta.json")):
        old = json.load(open(os.path.join(d, "meta.json")))
    old.update(meta)
    old["detected_by_quick_tier_of"] = DETECTED_BY.get(k, [])
    old["how_checked"] = "tools/run_seeded.sh <id> <PROP>: scratch worktree of /repo HEAD + patch.diff, check run with VERIF_REPO_SRC from a snapshot of /verif; worktree removed afterwards"
    json.dump(old, open(os.path.join(d, "meta.json"), "w"), indent=1)
NOTES = {
 "C09-2": "NEUTRALISED on the repaired tree: fix 978e547 (shape setter calls null_grad() before building placeholders) makes the asserted-None gradient always None, so this change no longer alters behaviour; the demo passes with the patch applied.  Kept for the record (it was detected by C09/C07 before the fix).",
 "C06-3": "NEUTRALISED on the repaired tree: fix aa9e889 stores the first gradient contribution in the tensor's own memory layout, so the layout of GetItem's zero buffer no longer reaches the user; the demo passes with the patch applied.",
 "C06-1": "patch.diff is rebased on the repaired tree; the sub-agent's original is patch.orig-snapshot.diff",
 "C12-1": "patch.diff is rebased on the repaired tree; the sub-agent's original is patch.orig-snapshot.diff",
 "C14-2": "patch.diff is rebased on the repaired tree; the sub-agent's original is patch.orig-snapshot.diff",
 "C10-2": "patch.diff is rebased on the repaired tree; the sub-agent's original is patch.orig-snapshot.diff",
 "C04-2": "patch.diff is rebased on the repaired tree; the sub-agent's original is patch.orig-snapshot.diff",
 "C05-3": "patch.diff is rebased on the current tree (after fix 3b8f35a touched the same import line); the sub-agent's original is patch.orig-snapshot.diff",
 "C15-1": "patch.diff is rebased on the current tree (after the hook commit 91f9284 touched __exit__); the sub-agent's original is patch.orig-snapshot.diff",
}
for k, note in NOTES.items():
    f = os.path.join(HERE, "seeded", k, "meta.json")
    m = json.load(open(f)); m["note"] = note
    json.dump(m, open(f, "w"), indent=1)
print(len(M), "metas written")

#!/bin/bash
# verify_seeded.sh <id> <patch> <demo> : confirms a seeded change in a scratch worktree of /repo HEAD:
#  demo passes on the clean tree, fails with the patch, and the pinned test suite still passes with the patch.
# Writes /tmp/seedcheck/<id>.log ; removes the worktree afterwards.
id="$1"; patch="$2"; demo="$3"; full="${4:-full}"
mkdir -p /tmp/seedcheck
log=/tmp/seedcheck/$id.log
wt=/tmp/seedcheck/wt-$id
rm -rf "$wt"; git -C /repo worktree prune
git -C /repo worktree add -q --detach "$wt" HEAD || exit 2
{
echo "== $id on $(git -C /repo rev-parse --short HEAD)"
cd "$wt"
PYTHONPATH=$wt/src /venv/bin/python "$demo" > /tmp/seedcheck/$id.clean.out 2>&1; echo "demo_clean_rc=$?"
if git apply --check "$patch" 2>/dev/null; then git apply "$patch"; echo "applied=direct";
elif git apply --3way "$patch" 2>/dev/null; then echo "applied=3way"; else echo "applied=FAILED"; fi
PYTHONPATH=$wt/src /venv/bin/python "$demo" > /tmp/seedcheck/$id.patched.out 2>&1; echo "demo_patched_rc=$?"
if [ "$full" = "full" ]; then
  PYTHONPATH=$wt/src /venv/bin/python -m pytest -q -p no:cacheprovider --timeout=900 --deselect tests/test_version.py::test_version tests 2>&1 | tail -3
fi
} > "$log" 2>&1
cd /; git -C /repo worktree remove --force "$wt"

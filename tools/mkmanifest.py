#!/usr/bin/env python3
"""Regenerates /verif/MANIFEST.json from the table below (single source of truth for the interface)."""
import json, os
HERE = os.path.dirname(os.path.dirname(os.path.abspath(__file__)))
props = [json.loads(l) for l in open(os.path.join(HERE, "properties.jsonl"))]

TB = "TLC/SANY 1.8 and CommunityModules Json/IOUtils; harness/driver.py (statement execution + projection); NumPy as twin; exact-fragment data (small rationals)"

CLAIMED = {
 "C01": ("model_checking", "5 C01",
   "TLA+ reference (Ref.tla: NumPy memory model + forward-mode dual numbers over exact rationals) decides the exact total derivative of every recorded program. spec->code: every program TLC enumerates from RefGen.tla within the bound is replayed on MyGrad and every handle's value/grad compared after every statement; code->spec: seeded random DAG programs (broadcasting, repetition, diamonds, constants, views) validated line by line by TLC. Exhaustive within the small alphabet, sampled beyond it.",
   "explicit TLA+ reference model checked with TLC; conformance by replaying TLC-enumerated behaviours into MyGrad and TLC trace validation of recorded executions"),
 "C04": ("model_checking", "5 C04",
   "Ref.tla models arrays as index maps into buffers; views gather the map, in-place statements write through it. Every TLC-enumerated history of views / setitem / augmented updates (bounded) is replayed on MyGrad with values, sharing matrix, .base, identity and constant flag compared after every statement; random histories are validated by TLC against both MyGrad and a NumPy twin.",
   "explicit TLA+ memory model checked with TLC; bidirectional conformance (behaviour replay + trace validation) against MyGrad and a NumPy twin"),
 "C05": ("model_checking", "5 C05",
   "In Ref.tla an in-place update gives every cell of the written buffer a fresh perturbation variable, so pre-/post-mutation differentiation, overwritten and masked-out cells follow without backward rules. Gradients of every handle are compared exactly after backward on TLC-enumerated and random histories mixing views, consumers and in-place writes.",
   "explicit TLA+ reference with dual numbers checked with TLC; behaviour replay + trace validation"),
 "C06": ("model_checking", "5 C06",
   "Ref.tla stores one gradient per memory owner; a view's gradient is the view's index map applied to it. Availability, value and memory sharing of every view gradient (gshare clause) are compared on TLC-enumerated and random programs in which base and views are consumed in varying orders.",
   "explicit TLA+ reference checked with TLC; behaviour replay + trace validation incl. gradient sharing matrices"),
 "C07": ("model_checking", "5 C07",
   "Ref.tla carries the user-visible life cycle of creators, consumers and gradients across epochs (backward / clear_graph / null_grad / re-use / in-place updates; a cleared tensor becomes a leaf - change of variables on the tangents). Multi-epoch programs (TLC-enumerated and random, incl. repeated identical iterations) are checked after every statement for: creator None and no recorded consumers upstream after backward, exact gradients in every epoch (no accumulation), gradient lifetime (gone at the next non-view use / in-place update / traversal, views too), and - with the cyclic GC disabled - that no Tensor or Operation object survives once it is unreachable from the caller's handles.",
   "explicit TLA+ reference checked with TLC; behaviour replay + trace validation incl. release and reference-counting clauses"),
 "C09": ("model_checking", "5 C09",
   "Programs with several terminals over shared upstream tensors interleave backward, clear_graph, re-use, in-place updates and new ops before a final backward. The trace specification admits exactly two outcomes: InvalidBackprop (only if part of the graph was cleared after it was recorded) or gradients equal to the reference adjoint of the recorded computation truncated at cleared tensors. The known defect F-C09-1 is a named trigger predicate in Ref.tla. Histories that continue after a refusal are the decision table tables/Retry.tla (28 operations x order x gradients of the two attempts x re-use): every backward() is refused or exact for its own gradient.",
   "explicit TLA+ reference checked with TLC; behaviour replay + trace validation with admissible-failure rule"),
 "C10": ("model_checking", "5 C10",
   "Ref.tla gives constants no perturbation variables and implements the constant rule (all inputs constant unless the keyword is given; integer/boolean tensors always constant; in-place target keeps its flag). Programs with random constant flags, integer leaves, constant= keywords, plain arrays and Python scalars are checked for the flag of every result, for constant=False on integer results raising, for constants never holding a gradient and for exact gradients of all other tensors.",
   "explicit TLA+ reference checked with TLC; behaviour replay + trace validation"),
 "C12": ("model_checking", "5 C12",
   "Every caller-owned array handed to MyGrad (operands, index arrays, seeds) is check-summed after every statement (inputs clause); values of all tensors are compared after backward; gradient sharing must equal the reference's family relation (gshare) and no gradient may alias any tensor's data (gdata); in-place edits of gradients (editgrad statements) must propagate exactly along the reference's sharing relation.",
   "explicit TLA+ reference checked with TLC; behaviour replay + trace validation with aliasing / checksum clauses"),
 "C13": ("model_checking", "5 C13",
   "Failing statements (bad shapes, axes, indices, broadcasts, reshape sizes; on bases and on views; bad seeds; constant=False on integer results) are inserted at random positions. A statement NumPy rejects must raise in MyGrad and the specification state is unchanged (only the target family's stale gradient may be dropped); all later statements, the final values and the final gradients are then validated against the reference, i.e. equal those of the program without the failing statements.",
   "explicit TLA+ reference checked with TLC; trace validation with failing statements as stutter steps"),
 "C14": ("model_checking", "5 C14",
   "backward(seed) is specified in Ref.tla as the tangent of sum(L*seed); programs with non-scalar terminals are run with no seed, Python scalars, 0-d/broadcastable/full arrays and tensors, and with non-broadcastable or terminal-broadcasting seeds (must raise, no gradient written). Every stored gradient must be an ndarray with the tensor's shape and dtype (gtyped clause), incl. float16/float32 and 0-d tensors.",
   "explicit TLA+ reference checked with TLC; behaviour replay + trace validation"),
 "C08": ("model_checking", "5 C08",
   "MemGuard.tla transcribes lock_arr_writeability / unique_arrs_and_bases / _release_lock_on_arr_writeability and the locking steps of Tensor._op together with CPython reference counting (which decides when an operation's finaliser runs). TLC checks (S) arrays of live guarded ops are read-only and (R) flags return to their original value once no live graph refers to an array, exhaustively over every order of drops, clear_graph calls and failing operations (1.5M states at the quick bound). Every behaviour of bounded length and seeded long simulations are replayed with real arrays, tensors, ops and dels, comparing every writeable flag (and, as drift indicator, the lock-table sizes) after every statement.",
   "explicit TLA+ mechanism model checked exhaustively with TLC; all enumerated behaviours and simulated behaviours replayed on the implementation"),
 "C15": ("model_checking", "5 C15",
   "Context.tla transcribes ContextTracker (per-manager depth counter and depth->saved dict, enter/exit/decorator, turn_memory_guarding_*). TLC checks ScopedRestore / EnterSets / DepthConsistent / DefaultOutside exhaustively to nesting depth 5 with turn_memory_guarding_* also inside scopes (~630k states); every behaviour of bounded length is replayed with real with-blocks, decorators and raising bodies, comparing both switches after every event; programs executed inside random nestings are validated against Ref.tla (untracked ops record nothing, keep gradients, write in place; backward is a no-op).",
   "explicit TLA+ mechanism model checked exhaustively with TLC; every enumerated behaviour replayed on the implementation; trace validation of programs run inside scopes"),
 "C02": ("model_checking", "5 C02",
   "OpTable.tla enumerates, for every operation the reference defines (arithmetic, power, abs/relu, reductions incl. prod with zeros, var/ddof, matmul, get/set-item with basic / advanced / boolean / repeated indices and broadcast values, ufunc where=+out=, reshaping / transposing / joining / tiling / where), the lattice of operand shapes (0-d, empty, broadcasting), operand kinds (tensor, constant, transposed view, scalar, array) and options, and computes value, shape and the exact VJP for a filler seed from the forward definition over dual numbers; every cell is replayed on MyGrad and compared exactly. For the transcendental kernels Kernels.tla states each derivative as an expression tree, TLC checks the table is total and the domain grids cover both signs and the documented conventions are rows; the harness evaluates the trees in extended precision on the grids (1e-9) and the convention rows exactly. Interp.tla gives exp/log/sqrt-built operations at interpretation points where value or VJP is rational; the focal losses are expression rows of Kernels.tla; Recurrent.tla unrolls the GRU's documented equations into a program whose VJP the harness reads off forward-mode duals. Operations without a row are listed in the evidence (none at present).",
   "explicit TLA+ reference + decision tables checked with TLC; every cell replayed exactly; transcendental derivative table evaluated numerically on domain grids (declared assumption)"),
 "C03": ("model_checking", "5 C03",
   "tables/Promote.tla states NumPy's NEP-50 promotion (arrays strong, Python scalars weak) and the per-operation dtype rules, checks the table's own sanity (commutativity, never narrower, weak scalars keep precision) and enumerates the configuration space: 7 binary ufuncs x 6 array dtypes x 9 operand kinds x side x shape x layout, keyword options (where / out / dtype and their combinations), 16 unary ufuncs, 9 reductions x axis/keepdims options, 15 data-movement functions x 4 memory layouts, matmul / einsum / where. Every cell is evaluated by MyGrad with tracking on, by MyGrad under no_autodiff and by NumPy on the raw arrays; values must be bit-identical, shapes and dtypes equal, and the dtype equal to the table's.",
   "explicit TLA+ decision table checked with TLC (exhaustive enumeration); every cell executed three ways (MyGrad tracked / untracked / NumPy)"),
 "C11": ("model_checking", "5 C11",
   "tables/Dispatch.tla lists, per operation, the spellings that must be one operation (MyGrad function, NumPy function/ufunc on tensors, method, operator, reflected and augmented operator, out= and where=+out= forms), the operand-kind combinations and argument cases, and the kind of result (Tensor / plain ndarray for boolean and non-differentiable functions / ValueError for the rounding-modulo family on non-constant tensors, wherever the tensor stands). All spellings of each of the ~1300 cells are executed on freshly built identical operands and compared in value, dtype, shape, constant flag and gradients; registered names without a table row are listed in the evidence.",
   "explicit TLA+ decision table checked with TLC (exhaustive enumeration); all spellings of every cell executed and compared"),
 "C16": ("model_checking", "5 C16",
   "tables/Layers.tla: transcription of sliding_window_view's guards and stride arithmetic and of the acceptance logic of conv_nd / max_pool next to the documented validity predicate and the documented formulas. TLC enumerates every configuration within the bounds (1-D and 2-D windows, leading dims, stride, padding, dilation), proves InBounds / Formula / AcceptsExactly / ConvAcceptsExactly on the table and emits the expected outcome; the harness executes every configuration twice (contiguous and strided input) and compares accept/reject, shape, read-only flag, memory bounds and every output value exactly. Long axes (1e5-1e6 elements) are rows for acceptance and shape. The other layers of the statement are decided by the tables C02 uses: Interp.tla (softmax, logsoftmax, softmax-crossentropy, batchnorm at exact interpretation points), the focal-loss rows of Kernels.tla, negative-log-likelihood / hinge / margin-ranking cells of Layers.tla, and Recurrent.tla, in which TLC unrolls the GRU's documented recurrence into a straight-line program (invariants WellFormed / Causal / Complete) that the harness evaluates in extended precision and compares with gru() element by element.",
   "explicit TLA+ decision table checked with TLC (exhaustive enumeration); every configuration executed on the implementation"),
 "C17": ("model_checking", "5 C17",
   "tables/Construct.tla transcribes tensor() / Tensor.__init__ / astensor / asarray / copy / astype as a decision table over input kind x dtype x constant x copy x ndmin x entry point; TLC checks CopyByDefault / ReuseWhenPossible / AstensorIdentity / Detached / RejectNonReal on every cell and emits the predicted outcome (raises, identity, memory sharing, dtype, constant, creator/grad/base); the harness executes every cell, including the later-mutation probe. Creation routines are compared three-way with NumPy for every routine x dtype x shape x variant cell.",
   "explicit TLA+ decision table checked with TLC (exhaustive); every cell executed on the implementation"),
 "C18": ("model_checking", "5 C18",
   "Save/load table (dtype x shape incl. 0-d and empty x constant x gradient presence incl. views x str/Path/file object): the round trip must reproduce data, dtype, shape and the gradient's value/shape/dtype (or None), and saving must leave the source tensor, its gradient, graph position and the lock tables untouched.",
   "explicit TLA+ decision table checked with TLC (exhaustive); every cell executed on the implementation"),
}
checks = []
for p in props:
    pid = p["id"]
    if pid not in CLAIMED: continue
    cat, ref, text, tech = CLAIMED[pid]
    checks.append({
      "property_id": pid,
      "quick_cmd": f"./check {pid} --tier quick",
      "thorough_cmd": f"./check {pid} --tier thorough",
      "evidence_file": f"/verif/evidence/{pid}.json",
      "replay_cmd_template": f"./check {pid} --replay {{path}}",
      "engine": "tlc-ref",
      "level_claimed": {"category": cat, "text": text, "design_ref": "DESIGN.md section " + ref},
      "level_note": TB,
      "technique": tech,
    })
na = [{"property_id": p["id"], "reason": "check not built yet in this revision (framework under construction; DESIGN.md section 10 gives the order)"} for p in props if p["id"] not in CLAIMED]
m = {"version": 1,
 "setup_cmd": "./setup.sh",
 "hooks": {"guard": "MYGRAD_VERIF", "enable": "MYGRAD_VERIF=1 in the environment when mygrad is imported (the C15 check sets it itself for the pytest subprocess that records the scope events of the repository's own tests); one add-only hook: mygrad._utils.ContextTracker.__enter__/__exit__ and turn_memory_guarding_on/off append (event, manager, depth, TRACK_GRAPH, MEM_GUARD) to a module-level list; no build step: mygrad is imported from /repo/src (the current working tree)",
           "baseline_off_cmd": "cd /repo && /venv/bin/python -m pytest -q -p no:cacheprovider --timeout=900",
           "source_commits": ["91f9284"], "add_only": True},
 "engines": [{"name": "tlc-ref", "path": "/verif/spec", "serves_properties": sorted(CLAIMED), "kind_free_text": "TLA+ specifications (spec/*.tla) checked with TLC; Python harness (harness/) replays TLC behaviours into MyGrad and feeds recorded traces back to TLC"}],
 "checks": checks,
 "not_applicable": na,
 "notes": "Known findings (genuine MyGrad defects) are listed in /verif/known_findings.json; fixes are 'fix:' commits in /repo."}
json.dump(m, open(os.path.join(HERE, "MANIFEST.json"), "w"), indent=1)
print("checks:", [c["property_id"] for c in checks], "n/a:", len(na))
